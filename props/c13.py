"""C13 - molecule consensus is the strict majority call and never reports a tie; order- and
duplication-invariant.

Seam: Molecule.get_consensus() (plain and dove_safe=True) on in-memory Fragment objects built from
pysam.AlignedSegment reads with MD tags; fragments are added with the real Molecule.add_fragment.

Space (the vote is per reference position, so it factorises):
 (i)  position level: every WORD (ordered sequence = insertion history) of <= N fragments over the kinds of
      contribution a fragment can make at a probed position (not covering / single-end A / single-end C /
      N / mates agree / R1 wins on quality / R2 wins on quality / mates tie at equal quality; with a smaller
      N additionally N-vs-base mate conflicts and a third base); all words = all multisets x all their distinct permutations.  For every
      multiset also the fragment-doubled molecule (appended and interleaved).
 (ii) window level: 3 adjacent positions, <= 3 fragments, every covered sub-window for R1 and R2 (hence all
      dove-tail shapes), mismatch at the first / last base of either mate, three quality relations, both
      molecule strands, soft-clip / deletion / insertion reads, dove_safe on and off, two insertion orders.
(iii) options: every option set of OPTSETS (dove_safe, min_phred_score at the quality boundaries, only_include_refbase,
      with_probs_and_obs, explicit defaults; skip_*_cycles_* and dove_R*_distance) on the position level (multisets up
      to a smaller N, two insertion orders) and on the window level (every letter alone, pairs over a thinner alphabet).
      Options whose meaning is documented / follows from the name are judged by the brute-force vote ("direct");
      the others ("meta") only by what the property states for ANY argument set: the molecule consensus is the
      strict-majority vote over the calls of its fragments, a fragment's calls being the consensus of the one-fragment
      molecule under the same arguments; order independence.
(iv)  histories: a consensus request with every option set after EVERY add_fragment, the requests of one stage
      ordered so that every ordered pair of option sets is adjacent once (memoised answers must not leak between
      argument sets or survive a later fragment); the public wrappers get_consensus_base,
      get_consensus_base_frequencies, get_consensus_gc_ratio; 12-fragment molecules (doubled 6-multisets).
(v)   pick_best_base_call itself on every word of <= 3 calls (None = mate absent), 2- and 3-tuples.
Oracle: brute-force vote written from the property statement, on this module's own CIGAR walk.
"""
import collections
import itertools
import json

from mc.bind import HarnessError
from gen import c13_reads as G

ID = 'C13'
DESIGN_REF = 'DESIGN.md section 3, C13'
RULE = ('position level: every ordered word of <= N fragments over the K contribution kinds at a probed position '
        '(= all multisets x all distinct insertion orders), plus doubled molecules per multiset; window level: all '
        'multisets of <= 3 fragment letters over 3 adjacent positions x strand x dove_safe x 2 insertion orders; '
        'option level: every option set x (position multisets up to a smaller N | every window letter | pairs over a '
        'thin window alphabet); history level: every option set requested after every add_fragment, every ordered pair '
        'of option sets adjacent; pick_best_base_call on all words of <= 3 calls. '
        'states = distinct (word | window case); a case is non-trivial when at some position at least two '
        'different bases receive a vote or a fragment has disagreeing mates')
ASSUMPTIONS = [
    'every fragment has an R1 (fragments without R1 are skipped by get_consensus; not generated)',
    'a single-end fragment is Fragment([R1, None]) as the package iterators build it; the Fragment([R1]) form of the '
    'class docstring is explored as a separate small family (call-site class single-read-list)',
    'bases are from ACGTN, plus one IUPAC ambiguity letter (R): what a fragment contributes AT a position where one of '
    'its reads shows an ambiguity code is left open (not judged); its A/C/G/T calls at all other positions count',
    'all fragments of a molecule map to one contig and share the R1 strand',
    'min_phred_score=q: read bases with a phred score below q are not calls; only_include_refbase=b (docstring of '
    'Fragment.get_consensus): only positions whose reference base is b are reported; with_probs_and_obs=True: a 3-tuple '
    'whose first element is the consensus dictionary and whose third maps position -> votes in the order A,C,G,T(,N) '
    '(only the A,C,G,T entries are judged); allow_N=True raises NotImplementedError (a refusal, not generated)',
    'skip_first/last_n_cycles_R1/R2 and dove_R1/R2_distance are undocumented: their filter semantics are NOT judged, only '
    'vote-consistency with the one-fragment molecules under the same arguments, order- and history-independence',
    'N is not a base call: a fragment whose (higher-quality) call is N casts no vote',
    'dove_safe=True (docstring: only bases within the R1 / R2 start and end coordinates): a fragment votes only '
    'on positions between the start of the forward mate and the end of the reverse mate; fragments without R2 or '
    'with mates not facing inwards cast no vote',
]

# ------------------------------------------------------------------------------------------------
# reference: position P carries 'A'; the 3-position window W0..W0+2 reads 'ACG' and has no 'T' nearby
REF = 'GGCCGGCCGG' + 'ACG' + 'GGCCGCCGGCGGCCGCGGCC'
P = 10
W0 = 10
TAGS = {'SM': 'CELL_1', 'RX': 'CAT', 'BC': 'ACGT'}
Q_HI, Q_LO = 30, 10


def _rd(start, seq, quals, reverse, cigar=None):
    return {'start': start, 'cigar': cigar, 'seq': seq, 'quals': list(quals), 'reverse': reverse}


# ---- position-level kinds --------------------------------------------------------------------------
def _pos_kind(kind):
    """fragment description for contribution kind `kind` at position P (reads cover P-1..P+1)"""
    left, right = REF[P - 1], REF[P + 1]

    def r(base, q, reverse):
        return _rd(P - 1, left + base + right, [Q_HI, q, Q_HI], reverse)
    if kind == 0:   # not covering P
        return {'r1': _rd(P + 2, REF[P + 2:P + 5], [Q_HI] * 3, False), 'r2': None}
    if kind == 1:
        return {'r1': r('A', Q_HI, False), 'r2': None}
    if kind == 2:
        return {'r1': r('C', Q_HI, False), 'r2': None}
    if kind == 3:
        return {'r1': r('N', Q_HI, False), 'r2': None}
    if kind == 4:
        return {'r1': r('A', Q_HI, False), 'r2': r('A', Q_HI, True)}
    if kind == 5:
        return {'r1': r('A', Q_HI, False), 'r2': r('C', Q_LO, True)}
    if kind == 6:
        return {'r1': r('A', Q_LO, False), 'r2': r('C', Q_HI, True)}
    if kind == 7:
        return {'r1': r('A', Q_HI, False), 'r2': r('C', Q_HI, True)}
    if kind == 8:   # higher-quality mate says N -> the fragment's call is N
        return {'r1': r('N', Q_HI, False), 'r2': r('C', Q_LO, True)}
    if kind == 9:   # lower-quality mate says N -> the fragment's call is C
        return {'r1': r('N', Q_LO, False), 'r2': r('C', Q_HI, True)}
    if kind == 10:  # single-end G (a third base; lets three-way ties and 2/1/1 pluralities occur)
        return {'r1': r('G', Q_HI, False), 'r2': None}
    if kind == 11:  # single-end C called at phred 0: still a call (only N and mate ties are "no call")
        return {'r1': r('C', 0, False), 'r2': None}
    if kind == 12:  # R1 says A at phred 0, R2 says C at phred 10: the higher-quality mate (C) is the call
        return {'r1': r('A', 0, False), 'r2': r('C', Q_LO, True)}
    if kind == 13:  # single-end C at phred 1: a call like any other
        return {'r1': r('C', 1, False), 'r2': None}
    if kind == 14:  # phred 2 (Illumina's read-segment indicator) against phred 1: the phred-2 mate (A) is the call
        return {'r1': r('A', 2, False), 'r2': r('C', 1, True)}
    if kind == 15:  # phred 41 against phred 93 (the largest storable): the phred-93 mate (C) is the call
        return {'r1': r('A', 41, False), 'r2': r('C', 93, True)}
    if kind == 16:  # single-end IUPAC ambiguity code at P (P itself is left open; the flanks P-1, P+1 are ordinary calls)
        return {'r1': r('R', Q_HI, False), 'r2': None}
    raise ValueError(kind)


POS_KIND_NAMES = ['away', 'seA', 'seC', 'seN', 'agreeA', 'A30/C10', 'A10/C30', 'A30/C30', 'N30/C10', 'N10/C30', 'seG', 'seC@q0',
                  'A0/C10', 'seC@q1', 'A2/C1', 'A41/C93', 'seR']


# ---- window-level letters --------------------------------------------------------------------------
SUBWINDOWS = [(a, b) for a in range(3) for b in range(a, 3)]       # inclusive offsets into the window


def _win_read(a, b, variant, q, reverse):
    seq = list(REF[W0 + a:W0 + b + 1])
    if variant == 'first':
        seq[0] = 'T'
    elif variant == 'last':
        seq[-1] = 'T'
    elif variant == 'firstR':            # IUPAC ambiguity code on the first base, the others are ordinary calls
        seq[0] = 'R'
    elif variant == 'lastR':
        seq[-1] = 'R'
    return _rd(W0 + a, ''.join(seq), [q] * len(seq), reverse)


CIGAR_KINDS = ('softclip', 'softclip-end', 'deletion', 'insertion', 'skip', 'eqx', 'hardclip')


def _cigar_read(what, q, reverse):
    if what == 'softclip':           # 1S2M at W0+1
        return _rd(W0 + 1, 'T' + REF[W0 + 1:W0 + 3], [q] * 3, reverse, [[4, 1], [0, 2]])
    if what == 'softclip-end':       # 2M1S at W0
        return _rd(W0, REF[W0:W0 + 2] + 'T', [q] * 3, reverse, [[0, 2], [4, 1]])
    if what == 'deletion':           # 1M1D1M at W0 : covers W0 and W0+2, last base mismatching
        return _rd(W0, REF[W0] + 'T', [q] * 2, reverse, [[0, 1], [2, 1], [0, 1]])
    if what == 'insertion':          # 1M1I1M at W0 : covers W0, W0+1
        return _rd(W0, REF[W0] + 'T' + REF[W0 + 1], [q] * 3, reverse, [[0, 1], [1, 1], [0, 1]])
    if what == 'skip':               # 1M1N1M at W0 : covers W0 and W0+2
        return _rd(W0, REF[W0] + REF[W0 + 2], [q] * 2, reverse, [[0, 1], [3, 1], [0, 1]])
    if what == 'eqx':                # 1=1X1= at W0 (extended CIGAR): covers the window, middle base mismatching
        return _rd(W0, REF[W0] + 'T' + REF[W0 + 2], [q] * 3, reverse, [[7, 1], [8, 1], [7, 1]])
    if what == 'hardclip':           # 1H2M1H at W0+1 : covers W0+1, W0+2, last base mismatching
        return _rd(W0 + 1, REF[W0 + 1] + 'T', [q] * 2, reverse, [[5, 1], [0, 2], [5, 1]])
    raise ValueError(what)


def _win_letter(letter, strand):
    """letter (JSON-able list) -> fragment description; `strand` = R1 is reverse"""
    kind = letter[0]
    if kind == 's':                      # single end: ['s', a, b, variant]
        _, a, b, v = letter
        return {'r1': _win_read(a, b, v, Q_HI, strand), 'r2': None}
    if kind == 'c':                      # single end with a CIGAR feature
        return {'r1': _cigar_read(letter[1], Q_HI, strand), 'r2': None}
    if kind == 'q':                      # pair, one mate with a CIGAR feature: ['q', mate, what, qrel]; the other mate
        _, mate, what, qrel = letter     # reads the reference over the whole window
        q1, q2 = {'gt': (Q_HI, Q_LO), 'lt': (Q_LO, Q_HI), 'eq': (Q_HI, Q_HI)}[qrel]
        if mate == 1:
            return {'r1': _cigar_read(what, q1, strand), 'r2': _win_read(0, 2, None, q2, not strand)}
        return {'r1': _win_read(0, 2, None, q1, strand), 'r2': _cigar_read(what, q2, not strand)}
    if kind == 'p':                      # pair: ['p', a1, b1, a2, b2, variant, qrel]
        _, a1, b1, a2, b2, v, qrel = letter
        q1, q2 = {'gt': (Q_HI, Q_LO), 'lt': (Q_LO, Q_HI), 'eq': (Q_HI, Q_HI)}[qrel]
        v1 = {'m': None, '1f': 'first', '1l': 'last', '1fR': 'firstR'}.get(v)
        v2 = {'m': None, '2f': 'first', '2l': 'last', '2lR': 'lastR'}.get(v)
        return {'r1': _win_read(a1, b1, v1, q1, strand), 'r2': _win_read(a2, b2, v2, q2, not strand)}
    if kind == 'x':                      # pair NOT facing inwards (both mates on the molecule strand)
        return {'r1': _win_read(0, 2, None, Q_HI, strand), 'r2': _win_read(0, 2, 'first', Q_LO, strand)}
    raise ValueError(letter)


def _single_letters():
    out = []
    for a, b in SUBWINDOWS:
        out.append(['s', a, b, None])
    for a, b in SUBWINDOWS:
        out.append(['s', a, b, 'first'])
        if b > a:
            out.append(['s', a, b, 'last'])
    for what in CIGAR_KINDS:
        out.append(['c', what])
    for a, b in SUBWINDOWS:
        if b > a:
            out.append(['s', a, b, 'firstR'])
            out.append(['s', a, b, 'lastR'])
    return out


def _cigar_pair_letters(whats, qrels):
    return [['q', mate, what, q] for mate in (1, 2) for what in whats for q in qrels]


def _pair_letters(variants, qrels, windows=None):
    out = []
    for (a1, b1) in SUBWINDOWS:
        for (a2, b2) in SUBWINDOWS:
            if windows is not None and ((a1, b1), (a2, b2)) not in windows:
                continue
            for v in variants:
                for q in qrels:
                    out.append(['p', a1, b1, a2, b2, v, q])
    return out


# window pairs for the 3-fragment level: full overlap, dove-tail on either side, adjacent, nested
_W3 = {((0, 2), (0, 2)), ((1, 2), (0, 1)), ((0, 1), (1, 2)), ((0, 0), (1, 2)), ((0, 2), (1, 1)), ((1, 1), (0, 2))}


def window_alphabet(level, tier):
    if level == 1:
        return _single_letters() + _pair_letters(['m', '1f', '1l', '2f', '2l', '1fR', '2lR'], ['gt', 'lt', 'eq']) + \
            _cigar_pair_letters(CIGAR_KINDS, ['gt', 'lt', 'eq']) + [['x']]
    if level == 2:
        if tier == 'quick':
            return _single_letters() + _pair_letters(['1f', '2l'], ['gt', 'eq']) + \
                _cigar_pair_letters(CIGAR_KINDS, ['gt']) + [['x']]
        return _single_letters() + _pair_letters(['m', '1f', '2l'], ['gt', 'lt', 'eq']) + \
            _cigar_pair_letters(CIGAR_KINDS, ['gt', 'lt', 'eq']) + [['x']]
    if level == 3:
        singles = [['s', 0, 2, None], ['s', 0, 2, 'first'], ['s', 1, 2, 'last'], ['s', 1, 1, 'first'], ['c', 'deletion'],
                   ['s', 0, 2, 'firstR']]
        cig = [['q', 2, 'deletion', 'gt'], ['q', 1, 'softclip-end', 'gt'], ['q', 2, 'insertion', 'gt'], ['q', 1, 'softclip', 'gt']]
        if tier == 'quick':
            return singles + _pair_letters(['1f', '2l'], ['gt', 'eq'], _W3) + cig + [['x']]
        return singles + [['s', 0, 0, None], ['s', 2, 2, 'first'], ['c', 'softclip']] + \
            _pair_letters(['1f', '2l'], ['gt', 'lt', 'eq'], _W3) + cig + [['x']]
    raise ValueError(level)


# ---- option sets ---------------------------------------------------------------------------------------
# (name, keyword arguments of Molecule.get_consensus, judged directly by the brute-force vote?)
_DEFAULTS = {'dove_safe': False, 'only_include_refbase': None, 'allow_N': False, 'with_probs_and_obs': False,
             'min_phred_score': None, 'skip_first_n_cycles_R1': None, 'skip_last_n_cycles_R1': None,
             'skip_first_n_cycles_R2': None, 'skip_last_n_cycles_R2': None, 'dove_R2_distance': 0, 'dove_R1_distance': 0}
OPTSETS = [
    ('plain', {}, True),
    ('dove', {'dove_safe': True}, True),
    ('defaults', _DEFAULTS, True),
    ('minq1', {'min_phred_score': 1}, True),
    ('minq10', {'min_phred_score': Q_LO}, True),
    ('minq11', {'min_phred_score': Q_LO + 1}, True),
    ('minq30', {'min_phred_score': Q_HI}, True),
    ('minq31', {'min_phred_score': Q_HI + 1}, True),
    ('dove+minq11', {'dove_safe': True, 'min_phred_score': Q_LO + 1}, True),
    ('refA', {'only_include_refbase': 'A'}, True),
    ('refC', {'only_include_refbase': 'C'}, True),
    ('refT', {'only_include_refbase': 'T'}, True),
    ('dove+refC', {'dove_safe': True, 'only_include_refbase': 'C'}, True),
    ('probs', {'with_probs_and_obs': True}, True),
    ('dove+probs', {'dove_safe': True, 'with_probs_and_obs': True}, True),
    ('probs+minq31', {'with_probs_and_obs': True, 'min_phred_score': Q_HI + 1}, True),
    ('probs+refC', {'with_probs_and_obs': True, 'only_include_refbase': 'C'}, True),
    ('skipF1=0', {'skip_first_n_cycles_R1': 0}, False),
    ('skipF1=1', {'skip_first_n_cycles_R1': 1}, False),
    ('skipL1=0', {'skip_last_n_cycles_R1': 0}, False),
    ('skipL1=1', {'skip_last_n_cycles_R1': 1}, False),
    ('skipF2=1', {'skip_first_n_cycles_R2': 1}, False),
    ('skipL2=0', {'skip_last_n_cycles_R2': 0}, False),
    ('skipL2=1', {'skip_last_n_cycles_R2': 1}, False),
    ('dR1=1', {'dove_R1_distance': 1}, False),
    ('dove+dR1=1', {'dove_safe': True, 'dove_R1_distance': 1}, False),
    ('dove+dR2=1', {'dove_safe': True, 'dove_R2_distance': 1}, False),
    ('dove+skipF1=1+minq11', {'dove_safe': True, 'skip_first_n_cycles_R1': 1, 'min_phred_score': Q_LO + 1}, False),
]
OPT = {name: (kw, direct) for name, kw, direct in OPTSETS}
OPT_NAMES = [name for name, _, _ in OPTSETS]
# the history level asks these after every add_fragment; every ordered pair of them is adjacent once per stage
HIST_OPTS = ['plain', 'dove', 'minq11', 'refC', 'probs', 'skipF1=1', 'dove+dR1=1']


def _opts_of(case):
    """(name, kwargs, direct) of a case; cases of the first two levels carry only the dove_safe flag"""
    name = case.get('opts')
    if name is None:
        name = 'dove' if case.get('dove_safe') else 'plain'
    kw, direct = OPT[name]
    return name, kw, direct


# ---- the oracle: brute-force vote from the property text ---------------------------------------------
def fragment_calls(frag, opts=False):
    """({position: (base, phred)}, open positions) - the ONE call the fragment contributes per reference position (no
    entry = no call).  `opts`: the keyword arguments of the request (a bare bool = dove_safe).  Open positions: one
    of the reads shows a base outside ACGTN there; what the fragment contributes at such a position is not judged."""
    if not isinstance(opts, dict):
        opts = {'dove_safe': bool(opts)}
    dove_safe = bool(opts.get('dove_safe'))
    minq = opts.get('min_phred_score')
    refbase = opts.get('only_include_refbase')
    r1, r2 = frag['r1'], frag.get('r2')
    open_pos = set()
    for rd in (r1, r2):
        if rd is not None:
            open_pos.update(pos for q, pos in G.aligned_pairs(rd) if rd['seq'][q] not in 'ACGTN')
    lo = hi = None
    if dove_safe:
        if r2 is None:
            return {}, open_pos
        if r1['reverse'] and not r2['reverse']:
            lo, hi = r2['start'], G.reference_end(r1) - 1
        elif not r1['reverse'] and r2['reverse']:
            lo, hi = r1['start'], G.reference_end(r2) - 1
        else:
            return {}, open_pos
    per_read = []
    for rd in (r1, r2):
        d = {}
        if rd is not None:
            for q, pos in G.aligned_pairs(rd):
                if lo is not None and not (lo <= pos <= hi):
                    continue
                if minq is not None and rd['quals'][q] < minq:
                    continue
                if refbase is not None and REF[pos].upper() != refbase:
                    continue
                d[pos] = (rd['seq'][q], rd['quals'][q])
        per_read.append(d)
    calls = {}
    for pos in set(per_read[0]) | set(per_read[1]):
        c1, c2 = per_read[0].get(pos), per_read[1].get(pos)
        if c1 is None or c2 is None:
            call = c1 or c2
        elif c1[1] > c2[1]:
            call = c1
        elif c2[1] > c1[1]:
            call = c2
        elif c1[0] == c2[0]:
            call = c1
        else:
            call = None                     # mates disagree at equal quality: undecidable
        if call is not None and call[0] in 'ACGT':
            calls[pos] = call
    return calls, open_pos


def _tally(calls_per_fragment):
    """[{pos: base}] -> (consensus {pos: base}, votes {pos: {base: n}}) : strict plurality, ties absent"""
    votes = {}
    for calls in calls_per_fragment:
        for pos, base in calls.items():
            votes.setdefault(pos, {}).setdefault(base, 0)
            votes[pos][base] += 1
    out = {}
    for pos, v in votes.items():
        ranked = sorted(v.items(), key=lambda kv: -kv[1])
        if len(ranked) == 1 or ranked[0][1] > ranked[1][1]:
            out[pos] = ranked[0][0]
    return out, votes


def oracle(frags, opts=False, with_open=False):
    per = [fragment_calls(f, opts) for f in frags]
    out, votes = _tally([{pos: c[0] for pos, c in calls.items()} for calls, _ in per])
    if with_open:
        return out, votes, set().union(*[o for _, o in per]) if per else set()
    return out, votes


# ---- driving the real code ------------------------------------------------------------------------
class Malformed(Exception):
    """the real code returned something that is not what the request documents"""


def _norm(res):
    if not isinstance(res, dict):
        raise Malformed(f'consensus is a {type(res).__name__}, not a dictionary')
    out = {}
    for key, base in res.items():
        contig, pos = key
        if contig != G.CONTIG:
            out[f'{contig}:{pos}'] = base
        else:
            out[int(pos)] = str(base)
    return out


def _query(mol, kw):
    """one consensus request -> ({pos: base}, vote table {pos: [nA, nC, nG, nT]} | None)"""
    res = mol.get_consensus(**kw)
    if not kw.get('with_probs_and_obs'):
        return _norm(res), None
    if not (isinstance(res, tuple) and len(res) == 3):
        raise Malformed('with_probs_and_obs=True did not return a 3-tuple')
    cons, _phreds, table = res
    tab = {}
    if table is not None:
        for key, vec in table.items():
            contig, pos = key
            tab[int(pos) if contig == G.CONTIG else f'{contig}:{pos}'] = [int(x) for x in list(vec)[:4]]
    return _norm(cons), tab


def _build(frags, single_as_pair=True, mol=None, first_index=0):
    from singlecellmultiomics.molecule import Molecule
    from singlecellmultiomics.fragment import Fragment
    if mol is None:
        mol = Molecule()
    for i, fd in enumerate(frags, start=first_index):
        reads = G.build_reads(REF, fd, f'f{i}', TAGS, single_as_pair=single_as_pair)
        frag = Fragment(reads, assignment_radius=1000, umi_hamming_distance=0)
        if not mol.add_fragment(frag):
            raise HarnessError(f'fragment {i} was not accepted into the molecule: {fd}')
    if len(mol) != first_index + len(frags):
        raise HarnessError('molecule size differs from the number of fragments added')
    return mol


def real_consensus(frags, dove_safe, single_as_pair=True, prior_queries=False, kw=None, with_table=False):
    """Build a fresh Molecule by adding the fragments in the given order; return {pos: base} or raise."""
    mol = _build(frags, single_as_pair)
    if kw is None:
        kw = {'dove_safe': True} if dove_safe else {}
    if prior_queries:
        # history: the same molecule was asked before with other arguments (a filter that removes every call, and the other
        # dove_safe setting); answers to earlier questions must not leak into this one
        for pk in ({'min_phred_score': Q_HI + 5}, {'dove_safe': not dove_safe}, {'min_phred_score': Q_HI + 5, 'dove_safe': dove_safe}):
            try:
                mol.get_consensus(**pk)
            except Exception:
                pass
    out, table = _query(mol, kw)
    return (out, table) if with_table else out


def _canon(d):
    return sorted((str(k), v) for k, v in d.items())


def _run(frags, dove_safe, site, single_as_pair=True, prior_queries=False, kw=None):
    """-> (result dict | None, [(signature, detail)])"""
    try:
        return real_consensus(frags, dove_safe, single_as_pair, prior_queries, kw), []
    except HarnessError:
        raise
    except Malformed as ex:
        return None, [(f'{site}:malformed-result', str(ex))]
    except Exception as ex:
        return None, [(f'{site}:exception:{type(ex).__name__}', repr(ex))]


def _run_table(frags, site, kw, single_as_pair=True):
    """like _run for one option set, also returning the vote table of a with_probs_and_obs request"""
    try:
        got, table = real_consensus(frags, False, single_as_pair, False, kw, with_table=True)
        return got, table, []
    except HarnessError:
        raise
    except Malformed as ex:
        return None, None, [(f'{site}:malformed-result', str(ex))]
    except Exception as ex:
        return None, None, [(f'{site}:exception:{type(ex).__name__}', repr(ex))]


def _compare(got, want, votes, site, open_pos=()):
    """clauses of the property for one evaluation"""
    out = []
    if got == want:
        return out
    for pos in sorted(set(got) | set(want), key=str):
        if pos in open_pos:
            continue
        g, w = got.get(pos), want.get(pos)
        if g == w:
            continue
        v = votes.get(pos, {})
        detail = {'position': pos, 'got': g, 'expected': w, 'votes': v}
        if w is None:
            ranked = sorted(v.values(), reverse=True)
            if not ranked:
                sig = 'position-without-any-base-call-present'
            elif len(ranked) > 1 and ranked[0] == ranked[1]:
                sig = 'tie-reported-as-consensus'
            else:
                sig = 'unexpected-position-present'
        elif g is None:
            sig = 'majority-position-absent'
        else:
            sig = 'not-the-majority-base'
        out.append((f'{site}:{sig}', detail))
    seen = set()
    return [(s, d) for s, d in out if not (s in seen or seen.add(s))]


def _compare_table(table, votes, site, open_pos=()):
    """with_probs_and_obs: the third element maps position -> votes per base (A,C,G,T)"""
    if table is None:
        table = {}
    for pos in sorted(set(table) | set(votes), key=str):
        if pos in open_pos:
            continue
        want = [votes.get(pos, {}).get(b, 0) for b in 'ACGT']
        got = table.get(pos, [0, 0, 0, 0])
        if got != want:
            return [(f'{site}:vote-table-differs-from-the-fragment-calls', {'position': pos, 'table': got, 'votes': want})]
    return []


# one-fragment molecules under an option set: what the fragment calls under these arguments, by the property itself
_SINGLE_CACHE = {}


def _single_calls(fd, optname, single_as_pair=True):
    key = (json.dumps(fd, sort_keys=True), optname, single_as_pair)
    hit = _SINGLE_CACHE.get(key)
    if hit is None:
        kw = {k: v for k, v in OPT[optname][0].items() if k != 'with_probs_and_obs'}
        hit = real_consensus([fd], False, single_as_pair, False, kw)
        if len(_SINGLE_CACHE) < 200000:
            _SINGLE_CACHE[key] = hit
    return hit


def _doubled(frags, how):
    if how == 'append':
        return list(frags) + list(frags)
    return [f for f in frags for _ in (0, 1)]


def _frags_of(case):
    if case['level'] == 'pos':
        return [_pos_kind(k) for k in case['word']]
    return [_win_letter(l, case['strand']) for l in case['letters']]


def check_case(case, base_result=None):
    """All clauses for one case. -> (violations, info)"""
    if case['level'] == 'pick':
        return _check_pick(case)
    if case.get('history'):
        return _check_history(case)
    optname, kw, direct = _opts_of(case)
    if 'opts' in case:
        site = f'get_consensus[{optname}]:' + case['level']
    else:
        site = 'get_consensus' + ('[dove_safe]' if case.get('dove_safe') else '') + ':' + case['level']
    sap = not case.get('single_read_list')
    if not sap:
        # the one-element read list of the Fragment docstring, Fragment([read]); own call-site class
        site += ':single-read-list'
    dove = bool(kw.get('dove_safe'))
    frags = _frags_of(case)
    viols = []
    execs = 0
    if direct:
        want, votes, open_pos = oracle(frags, kw, with_open=True)
    else:
        # undocumented filter arguments: the vote is taken over what the one-fragment molecules report under them
        try:
            singles = [_single_calls(f, optname, sap) for f in frags]
        except HarnessError:
            raise
        except Exception as ex:
            return [(f'{site}:one-fragment-molecule:exception:{type(ex).__name__}', repr(ex))], \
                {'got': None, 'want': {}, 'votes': {}, 'execs': 1, 'nontrivial': False}
        want, votes = _tally(singles)
        open_pos = oracle(frags, kw, with_open=True)[2]
    if case.get('double'):
        # the doubled molecule must give what the plain one gives (and what the vote says)
        got, v = _run(_doubled(frags, case['double']), dove, site + ':doubled', sap, kw=kw if 'opts' in case else None)
        execs += 1
        viols += v
        if got is not None:
            if base_result is None and not case.get('no_plain'):
                base_result, v0 = _run(frags, dove, site, sap)
                execs += 1
                viols += v0
            if base_result is not None and got != base_result:
                viols.append((f'{site}:doubling-changes-consensus', {'plain': _canon(base_result), 'doubled': _canon(got)}))
            viols += _compare(got, want, {p: {b: 2 * n for b, n in v_.items()} for p, v_ in votes.items()}, site + ':doubled',
                              open_pos)
    elif case.get('wrappers'):
        got = None
        if not open_pos:            # the wrappers report whole-consensus summaries: judged only when nothing is left open
            got, v, n = _run_wrappers(frags, want, site, sap)
            execs += n
            viols += v
    else:
        pq = bool(case.get('prior_queries'))
        if pq:
            site += ':after-other-queries'
        if 'opts' in case:
            got, table, v = _run_table(frags, site, kw, sap)
        else:
            got, v = _run(frags, dove, site, sap, prior_queries=pq)
            table = None
        execs += 1
        viols += v
        if got is not None:
            viols += _compare(got, want, votes, site, open_pos)
            if kw.get('with_probs_and_obs'):
                viols += _compare_table(table, votes, site, open_pos)
            if base_result is not None and got != base_result:
                viols.append((f'{site}:order-dependent', {'this_order': _canon(got), 'other_order': _canon(base_result)}))
    nontrivial = any(len(v_) >= 2 for v_ in votes.values()) or any(
        _mates_disagree(f) for f in frags)
    info = {'got': got, 'want': want, 'votes': votes, 'execs': execs, 'nontrivial': nontrivial}
    seen = set()
    viols = [(s, d) for s, d in viols if not (s in seen or seen.add(s))]
    return viols, info


def _run_wrappers(frags, want, site, sap):
    """public wrappers that answer from the consensus: get_consensus_base (docstring: the base call at one position, None
    when no base call could be made), get_consensus_base_frequencies (frequency of bases in the consensus sequence),
    get_consensus_gc_ratio (GC ratio of the consensus sequence; asked only when the consensus is not empty)"""
    viols = []
    n = 0
    mol = _build(frags, sap)
    got = {}
    for contig, positions in ((G.CONTIG, sorted(set(want) | {P - 1, P, P + 1})), ('chr2', [P])):
        for pos in positions:
            try:
                b = mol.get_consensus_base(contig, pos)
                n += 1
            except Exception as ex:
                viols.append((f'get_consensus_base:{site}:exception:{type(ex).__name__}', repr(ex)))
                break
            w = want.get(pos) if contig == G.CONTIG else None
            if contig == G.CONTIG and b is not None:
                got[pos] = b
            if b != w:
                viols.append((f'get_consensus_base:{site}:' + ('other-contig-answered' if contig != G.CONTIG else
                                                             'differs-from-majority-call'),
                              {'contig': contig, 'position': pos, 'got': b, 'expected': w}))
                break
    try:
        freq = mol.get_consensus_base_frequencies()
        n += 1
        wf = dict(collections.Counter(want.values()))
        if {k: v for k, v in dict(freq).items() if v} != wf:
            viols.append((f'get_consensus_base_frequencies:{site}:differs-from-consensus', {'got': dict(freq), 'expected': wf}))
    except Exception as ex:
        viols.append((f'get_consensus_base_frequencies:{site}:exception:{type(ex).__name__}', repr(ex)))
    if want:
        try:
            gc = mol.get_consensus_gc_ratio()
            n += 1
            wgc = sum(1 for b in want.values() if b in 'GC') / len(want)
            if abs(gc - wgc) > 1e-9:
                viols.append((f'get_consensus_gc_ratio:{site}:differs-from-consensus', {'got': gc, 'expected': wgc}))
        except Exception as ex:
            viols.append((f'get_consensus_gc_ratio:{site}:exception:{type(ex).__name__}', repr(ex)))
    return got, viols, n


# ---- histories: a request with every option set after every add_fragment -------------------------------------
def _pair_cover(k):
    """a sequence over range(k) in which every ordered pair (a, b), a == b included, is adjacent exactly once
    (de Bruijn sequence of order 2, closed)"""
    a = [0] * (k * 2)
    seq = []

    def db(t, p):
        if t > 2:
            if 2 % p == 0:
                seq.extend(a[1:p + 1])
        else:
            a[t] = a[t - p]
            db(t + 1, p)
            for j in range(a[t - p] + 1, k):
                a[t] = j
                db(t + 1, t)
    db(1, 1)
    return seq + seq[:1]


_FRESH_CACHE = {}


def _fresh(word, optname):
    """the answer of a molecule that was only built and asked this one question"""
    key = (tuple(word), optname)
    hit = _FRESH_CACHE.get(key)
    if hit is None:
        hit = real_consensus([_pos_kind(k) for k in word], False, True, False, OPT[optname][0])
        if len(_FRESH_CACHE) < 200000:
            _FRESH_CACHE[key] = hit
    return hit


def _check_history(case):
    word = case['word']
    frags = [_pos_kind(k) for k in word]
    order = [HIST_OPTS[i] for i in _pair_cover(len(HIST_OPTS))]
    viols = []
    execs = 0
    mol = None
    got = None
    merge = case.get('grow') == 'add_molecule'
    for stage in range(1, len(frags) + 1):
        if merge and mol is not None:
            # the molecule grows by MERGING another molecule into it (Molecule.add_molecule), as the taggers do when two
            # molecules turn out to be one; whatever was answered before the merge must not survive it
            from singlecellmultiomics.molecule import Molecule
            from singlecellmultiomics.fragment import Fragment
            other = Molecule(Fragment(G.build_reads(REF, frags[stage - 1], f'f{stage - 1}', TAGS, single_as_pair=True),
                                      assignment_radius=1000, umi_hamming_distance=0))
            mol.add_molecule(other)
            if len(mol) != stage:
                raise HarnessError('molecule size differs from the number of fragments merged')
        else:
            mol = _build(frags[stage - 1:stage], True, mol, first_index=stage - 1)
        prefix = frags[:stage]
        for optname in order:
            kw, direct = OPT[optname]
            site = f'get_consensus[{optname}]:pos:' + ('after-every-merge' if merge else 'after-every-add')
            try:
                got, table = _query(mol, kw)
                execs += 1
            except Malformed as ex:
                viols.append((f'{site}:malformed-result', str(ex)))
                continue
            except Exception as ex:
                viols.append((f'{site}:exception:{type(ex).__name__}', repr(ex)))
                continue
            if direct:
                want, votes, open_pos = oracle(prefix, kw, with_open=True)
                viols += _compare(got, want, votes, site, open_pos)
                if kw.get('with_probs_and_obs'):
                    viols += _compare_table(table, votes, site, open_pos)
            else:
                try:
                    fresh = _fresh(word[:stage], optname)
                except HarnessError:
                    raise
                except Exception:
                    continue
                if got != fresh:
                    viols.append((f'{site}:differs-from-a-fresh-molecule', {'stage': stage, 'got': _canon(got), 'fresh': _canon(fresh)}))
    want, votes = oracle(frags, {})
    # the wrappers answer after the whole history, too
    try:
        b = mol.get_consensus_base(G.CONTIG, P)
        execs += 1
        if b != want.get(P):
            viols.append(('get_consensus_base:pos:after-every-add:differs-from-majority-call', {'got': b, 'expected': want.get(P)}))
    except Exception as ex:
        viols.append((f'get_consensus_base:pos:after-every-add:exception:{type(ex).__name__}', repr(ex)))
    nontrivial = any(len(v_) >= 2 for v_ in votes.values()) or any(_mates_disagree(f) for f in frags)
    seen = set()
    viols = [(s, d) for s, d in viols if not (s in seen or seen.add(s))]
    return viols, {'got': got, 'want': want, 'votes': votes, 'execs': execs, 'nontrivial': nontrivial}


# ---- pick_best_base_call on its own -------------------------------------------------------------------------
PICK_CALLS = [None, ['A', 0], ['C', 0], ['A', Q_LO], ['C', Q_LO], ['A', Q_HI], ['C', Q_HI], ['G', Q_HI], ['N', Q_HI], ['N', Q_LO]]


def _check_pick(case):
    """docstring: the best call of a list of calls, ('N', 0) when there is a tie; a mate that does not cover the position
    is None.  Judged: the base (and phred score) of the unique highest-quality call; 'N' when calls of different bases
    share the highest quality or there is no call."""
    from singlecellmultiomics.utils.sequtils import pick_best_base_call
    site = 'pick_best_base_call:' + ('2-tuples' if case['shape'] == 2 else '3-tuples')
    calls = [None if c is None else (tuple(c) if case['shape'] == 2 else (c[0], c[1], 'A')) for c in
             (PICK_CALLS[i] for i in case['word'])]
    present = [c for c in calls if c is not None]
    if present:
        top = max(c[1] for c in present)
        bases = {c[0] for c in present if c[1] == top}
        want = (bases.pop(), top) if len(bases) == 1 else ('N', None)
    else:
        want = ('N', None)
    viols = []
    try:
        got = pick_best_base_call(*calls)
        if got is None or got[0] != want[0] or (want[0] != 'N' and got[1] != want[1]):
            clause = 'tie-or-no-call-not-N' if want[0] == 'N' else 'not-the-highest-quality-call'
            viols.append((f'{site}:{clause}', {'calls': case['word'], 'got': got, 'expected': want}))
    except Exception as ex:
        got = None
        viols.append((f'{site}:exception:{type(ex).__name__}', repr(ex)))
    nontrivial = len({c[0] for c in present}) >= 2
    return viols, {'got': got, 'want': want, 'votes': {}, 'execs': 1, 'nontrivial': nontrivial,
                   'outcome': 'pick:' + ('no-call' if want[0] == 'N' and want[1] is None else 'call')}


def _mates_disagree(f):
    if f.get('r2') is None:
        return False
    a = {pos: f['r1']['seq'][q] for q, pos in G.aligned_pairs(f['r1'])}
    b = {pos: f['r2']['seq'][q] for q, pos in G.aligned_pairs(f['r2'])}
    return any(a[p] != b[p] for p in set(a) & set(b))


# ---- bounds / shards ------------------------------------------------------------------------------
N_MAIN = 8                     # kinds of the main position alphabet (all orders up to pos_max_fragments)
N_EXTRA1 = 13                  # kinds of the first extra alphabet (the second one holds all kinds, up to a smaller N)


def bounds(tier):
    q = tier == 'quick'
    return {'pos_kinds': POS_KIND_NAMES[:N_MAIN], 'pos_max_fragments': 5 if q else 7,
            'pos_extra': {'kinds': POS_KIND_NAMES[:N_EXTRA1], 'max_fragments': 4 if q else 5},
            'pos_extra2': {'kinds': POS_KIND_NAMES, 'max_fragments': 3 if q else 4},
            'pos_options': {'option_sets': OPT_NAMES[1:], 'judged_by_vote_oracle': [n for n, _, d in OPTSETS if d],
                            'judged_by_one_fragment_molecules': [n for n, _, d in OPTSETS if not d],
                            'max_fragments_main': 4 if q else 5, 'max_fragments_extra': 3 if q else 4,
                            'orders': ['sorted', 'reversed']},
            'pos_wrappers': ['get_consensus_base', 'get_consensus_base_frequencies', 'get_consensus_gc_ratio'],
            'pos_doubled_only': {'kinds': POS_KIND_NAMES[:N_MAIN], 'fragments': 6, 'doubled_to': 12},
            'history': {'kinds': POS_KIND_NAMES[:10], 'max_fragments': 3 if q else 4,
                        'orders': ['sorted', 'reversed'] if q else 'all distinct orders up to 3 fragments, sorted and reversed for 4',
                        'option_sets_after_every_add': HIST_OPTS, 'requests_per_stage': len(HIST_OPTS) ** 2 + 1},
            'pick_best_base_call': {'calls': PICK_CALLS, 'max_calls': 3, 'tuple_shapes': [2, 3]},
            'window_positions': 3, 'window_max_fragments': 3,
            'window_alphabet_sizes': {str(l): len(window_alphabet(l, tier)) for l in (1, 2, 3)},
            'window_cigar_kinds': list(CIGAR_KINDS),
            'window_options': {'option_sets': OPT_NAMES[2:], 'level1': 'every letter of the level-1 alphabet',
                               'level2': 'all pairs over the level-3 alphabet, 2 orders'},
            'strands': [False, True], 'dove_safe': [False, True], 'window_orders': ['as listed', 'reversed'],
            'doubling': ['append', 'interleave'], 'single_read_list': {'kinds': POS_KIND_NAMES[:4], 'max_fragments': 3,
                                                                      'option_sets': ['plain', 'dove', 'minq31', 'probs']}}


def _pos_multisets(tier):
    """(multiset as sorted tuple).  Main alphabet: 8 kinds up to N; first extra alphabet: 13 kinds up to a smaller N,
    second extra alphabet: all kinds up to a still smaller N; of the extra alphabets only the multisets that use at
    least one of their own kinds (so the families do not overlap)."""
    b = bounds(tier)
    out = []
    for n in range(1, b['pos_max_fragments'] + 1):
        out.extend(itertools.combinations_with_replacement(range(N_MAIN), n))
    for n in range(1, b['pos_extra']['max_fragments'] + 1):
        for ms in itertools.combinations_with_replacement(range(N_EXTRA1), n):
            if max(ms) >= N_MAIN:
                out.append(ms)
    for n in range(1, b['pos_extra2']['max_fragments'] + 1):
        for ms in itertools.combinations_with_replacement(range(len(POS_KIND_NAMES)), n):
            if max(ms) >= N_EXTRA1:
                out.append(ms)
    return out


N_POS_SHARDS = 48
N_WIN_SHARDS = 16
N_DBL_SHARDS = 8
N_HIST_SHARDS = 16
N_WOPT_SHARDS = 16


def shards(tier):
    out = [('pos', i) for i in range(N_POS_SHARDS)]
    out.append(('list1',))
    out.append(('pick',))
    for level in (1, 2, 3):
        for i in range(N_WIN_SHARDS):
            out.append(('win', level, i))
    out += [('dbl', i) for i in range(N_DBL_SHARDS)]
    out += [('hist', i) for i in range(N_HIST_SHARDS)]
    for level in (1, 2):
        out += [('wopt', level, i) for i in range(N_WOPT_SHARDS)]
    return out


def _distinct_permutations(ms):
    seen = set()
    for p in itertools.permutations(ms):
        if p not in seen:
            seen.add(p)
            yield p


def run_shard(shard, tier, acc):
    if shard[0] == 'list1':
        # single-end fragments given as Fragment([read]) (class docstring) instead of [read, None]
        for n in (1, 2, 3):
            for word in itertools.product(range(4), repeat=n):
                case = {'level': 'pos', 'word': list(word), 'single_read_list': True}
                viols, info = check_case(case)
                _report(acc, case, viols, info)
                for optname in ('dove', 'minq31', 'probs'):
                    case = {'level': 'pos', 'word': list(word), 'single_read_list': True, 'opts': optname}
                    viols, info = check_case(case)
                    _report(acc, case, viols, info)
        return
    if shard[0] == 'pick':
        for shape in (2, 3):
            for n in (0, 1, 2, 3):
                for word in itertools.product(range(len(PICK_CALLS)), repeat=n):
                    case = {'level': 'pick', 'word': list(word), 'shape': shape}
                    viols, info = check_case(case)
                    _report(acc, case, viols, info)
        return
    if shard[0] == 'pos':
        # heavy multisets first in the list would unbalance: deal round-robin
        mss = _pos_multisets(tier)
        b = bounds(tier)['pos_options']
        for idx in range(shard[1], len(mss), N_POS_SHARDS):
            ms = mss[idx]
            _run_pos_multiset(ms, acc)
            if len(ms) <= (b['max_fragments_main'] if max(ms) < N_MAIN else b['max_fragments_extra']):
                _run_pos_options(ms, acc)
    elif shard[0] == 'dbl':
        # molecules of 12 fragments (the bound of the quantifier): every 6-multiset of the main kinds, doubled both ways
        mss = list(itertools.combinations_with_replacement(range(N_MAIN), 6))
        for idx in range(shard[1], len(mss), N_DBL_SHARDS):
            ms = mss[idx]
            case = {'level': 'pos', 'word': list(ms)}
            viols, info = check_case(case)
            _report(acc, case, viols, info, states=0)
            for how in ('append', 'interleave'):
                case = {'level': 'pos', 'word': list(ms), 'double': how}
                viols, info2 = check_case(case, base_result=info['got'])
                _report(acc, case, viols, info2)
    elif shard[0] == 'hist':
        b = bounds(tier)['history']
        mss = []
        for n in range(1, b['max_fragments'] + 1):
            mss.extend(itertools.combinations_with_replacement(range(len(b['kinds'])), n))
        for idx in range(shard[1], len(mss), N_HIST_SHARDS):
            ms = mss[idx]
            words = [ms, ms[::-1]] if tier == 'quick' or len(ms) > 3 else list(_distinct_permutations(ms))
            for wi, word in enumerate(words):
                if wi and word == words[0]:
                    continue
                case = {'level': 'pos', 'word': list(word), 'history': 'every-option-set-after-every-add'}
                viols, info = check_case(case)
                _report(acc, case, viols, info)
                if wi == 0 and len(word) > 1:
                    case = dict(case, grow='add_molecule')
                    viols, info = check_case(case)
                    _report(acc, case, viols, info)
    elif shard[0] == 'wopt':
        _, level, part = shard
        alpha = window_alphabet(1 if level == 1 else 3, tier)
        combos = itertools.combinations_with_replacement(range(len(alpha)), level)
        for idx, combo in enumerate(combos):
            if idx % N_WOPT_SHARDS != part:
                continue
            letters = [alpha[i] for i in combo]
            for strand in (False, True):
                for optname in OPT_NAMES[2:]:
                    base = None
                    orders = [letters] if level == 1 else [letters, letters[::-1]]
                    for oi, order in enumerate(orders):
                        if oi and order == letters:
                            continue
                        case = {'level': 'win', 'letters': order, 'strand': strand, 'opts': optname}
                        viols, info = check_case(case, base_result=base)
                        if base is None:
                            base = info['got']
                        _report(acc, case, viols, info)
    else:
        _, level, part = shard
        alpha = window_alphabet(level, tier)
        combos = itertools.combinations_with_replacement(range(len(alpha)), level)
        for idx, combo in enumerate(combos):
            if idx % N_WIN_SHARDS != part:
                continue
            letters = [alpha[i] for i in combo]
            for strand in (False, True):
                for dove in (False, True):
                    base = None
                    orders = [letters] if level == 1 else [letters, letters[::-1]]
                    for oi, order in enumerate(orders):
                        if oi and order == letters:
                            continue
                        case = {'level': 'win', 'letters': order, 'strand': strand, 'dove_safe': dove}
                        viols, info = check_case(case, base_result=base)
                        if base is None:
                            base = info['got']
                        _report(acc, case, viols, info)
                if level == 1 and not strand:
                    case = {'level': 'win', 'letters': letters, 'strand': strand, 'dove_safe': False, 'wrappers': True}
                    viols, info = check_case(case)
                    _report(acc, case, viols, info, states=0)


def _run_pos_multiset(ms, acc):
    base = None
    for word in _distinct_permutations(ms):
        case = {'level': 'pos', 'word': list(word)}
        viols, info = check_case(case, base_result=base)
        if base is None:
            base = info['got']
        _report(acc, case, viols, info)
    for how in ('append', 'interleave'):
        case = {'level': 'pos', 'word': list(ms), 'double': how}
        viols, info = check_case(case, base_result=base)
        _report(acc, case, viols, info, states=0)
    case = {'level': 'pos', 'word': list(ms), 'prior_queries': True}
    viols, info = check_case(case, base_result=None)
    _report(acc, case, viols, info, states=0)


def _run_pos_options(ms, acc):
    """every option set (but the bare call, explored in every order above) on the multiset, two insertion orders"""
    case = {'level': 'pos', 'word': list(ms), 'wrappers': True}
    viols, info = check_case(case)
    _report(acc, case, viols, info, states=0)
    for optname in OPT_NAMES[1:]:
        base = None
        for oi, word in enumerate((ms, ms[::-1])):
            if oi and word == ms:
                continue
            case = {'level': 'pos', 'word': list(word), 'opts': optname}
            viols, info = check_case(case, base_result=base)
            if base is None:
                base = info['got']
            _report(acc, case, viols, info)


def _report(acc, case, viols, info, states=1):
    if 'outcome' in info:
        outcome = info['outcome']
    elif case['level'] == 'pos':
        v = info['votes'].get(P, {})
        w = info['want'].get(P)
        if w is not None:
            outcome = f'pos:{w}'
        elif not v:
            outcome = 'pos:absent-no-call'
        else:
            outcome = 'pos:absent-tie'
        if case.get('double'):
            outcome += ':doubled'
        if case.get('history'):
            outcome += ':history'
        elif case.get('wrappers'):
            outcome += ':wrappers'
        elif 'opts' in case:
            outcome = f"opt:{case['opts']}:" + outcome
    else:
        n_present = len(info['want'])
        n_voted = len(info['votes'])
        if case.get('wrappers'):
            outcome = f'win:wrappers:present={n_present}/voted={n_voted}'
        elif 'opts' in case:
            outcome = f"opt:{case['opts']}:win:present={n_present}/voted={n_voted}"
        else:
            outcome = f"win:{'dove' if case['dove_safe'] else 'plain'}:present={n_present}/voted={n_voted}"
    acc.case(case, transitions=info['execs'], execs=info['execs'], nontrivial=info['nontrivial'] and states > 0,
             outcome=outcome, states=states)
    # which of the dimensions a case exercises (the outcome histogram of the evidence file only keeps the most frequent labels)
    if case['level'] == 'pick':
        acc.count('cases:pick_best_base_call')
    else:
        if case.get('history'):
            acc.count('cases:history(every option set after every add)')
            acc.count('requests:history', info['execs'])
        elif case.get('wrappers'):
            acc.count('cases:wrappers')
        elif 'opts' in case:
            acc.count('cases:option-set:' + case['opts'])
        if case.get('double') and len(case['word']) == 6:
            acc.count('cases:12-fragment molecule')
        if case['level'] == 'pos':
            for k in set(case['word']):
                if k >= N_EXTRA1:
                    acc.count('cases:kind:' + POS_KIND_NAMES[k])
        else:
            flat = json.dumps(case['letters'])
            if 'R"' in flat:
                acc.count('cases:window letter with an ambiguity code')
            if '"q"' in flat:
                acc.count('cases:window pair with a CIGAR feature in one mate')
            for what in ('eqx', 'hardclip'):
                if what in flat:
                    acc.count('cases:window read with ' + what)
    for sig, d in viols:
        acc.violation(sig, case, d)


def replay(case):
    base = None
    if case['level'] != 'pick' and not case.get('double') and not case.get('history') and not case.get('wrappers'):
        # order clause: compare against the canonical (sorted) insertion order of the same fragments
        if case['level'] == 'pos':
            other = dict(case, word=sorted(case['word']))
        else:
            other = dict(case, letters=case['letters'][::-1])
        if other != case:
            _, kw, _ = _opts_of(case)
            base, _ = _run(_frags_of(other), bool(kw.get('dove_safe')), 'x', not case.get('single_read_list'),
                           kw=kw if 'opts' in case else None)
    viols, _ = check_case(case, base_result=base)
    return viols
