"""C04 oracle helpers: Illumina header shapes, the saturating quality codec and the BAM name limit.

Written from the property text and the public formats (CASAVA >= 1.8 read names, SAM spec), not from the
implementation: the read name of a BAM record is stored with a one-byte length that includes the
terminating NUL, so at most 254 characters can be stored (SAM spec QNAME: [!-?A-~]{1,254}).
"""
LETTERS = 'abcdefghijklmnopqrstuvwxyzABCDEFGHIJKLMNOPQRSTUVWXYZ'   # phred q -> LETTERS[q], q = 0..51
MAX_QNAME = 254
LIB_ALPHABET = 'abcdefghijklmnopqrstuvwxyzABCDEFGHIJKLMNOPQRSTUVWXYZ0123456789_-'

FIELDS = ('Is', 'RN', 'Fc', 'La', 'Ti', 'CX', 'CY')
VALUES = {
    'v1': ('NS500414', '628', 'H7YVNBGXC', '1', '11101', '15963', '1046'),
    'v2': ('M0-12_3', '7', '000000000-K3T5P', '8', '2119', '1', '99999'),
}


def saturate(quals):
    """the phred characters a header can carry: everything above phred 51 becomes phred 51"""
    return ''.join(chr(min(ord(c), 33 + 51)) for c in quals)


def header(shape, values, mate, index='ATCACG'):
    """-> (FASTQ header line, expectation dict for the decoded alignment)"""
    inst, run, fc, lane, tile, x, y = values
    coords = f'{inst}:{run}:{fc}:{lane}:{tile}:{x}:{y}'
    exp = dict(zip(FIELDS, values))
    exp['name'] = coords
    if shape == 'S1':        # @inst:run:fc:lane:tile:x:y read:filtered:control:index
        exp.update({'Fi': 'N', 'CN': '0', 'aa': index})
        return f'@{coords} {mate}:N:0:{index}', exp
    if shape == 'S2':        # index field absent, as printed by older bcl2fastq: "... 1:N:0::"
        exp.update({'Fi': 'N', 'CN': '0'})
        return f'@{coords} {mate}:N:0::', exp
    if shape == 'S3':        # coordinates only
        return f'@{coords}', exp
    if shape == 'DEC':       # 3-DEC: @Cluster_s_<lane>_<tile>_<n>; no Illumina coordinates exist
        return f'@Cluster_s_{lane}_{tile}_{x}', {'La': lane, 'Ti': tile}
    raise KeyError(shape)


def library(n, offset=0):
    """a library name of n characters running through the whole header-safe alphabet"""
    return ''.join(LIB_ALPHABET[(offset + i) % len(LIB_ALPHABET)] for i in range(n))
