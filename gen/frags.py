"""Fragment-level generators for the molecule iterator checks (C06, C07)."""
from gen.reads import header, make_read, debruijn_like, revcomp

BG = debruijn_like(300, avoid=('CATG',))
HDR = header([('chr1', 100000), ('chr2', 100000)])
RLEN = 20


def nla_reads(name, contig, site, length, cell, umi, reverse=False, paired=None, r2_end_shift=0, clip=0, error=False,
              duplicate_flag=False, extra_tags=None, mapq=60):
    """Reads of one NlaIII fragment whose CATG starts at `site`, covering `length` reference bases.
    forward: [site, site+length); reverse: [site+4-length, site+4).
    paired=None -> paired iff length > RLEN. Returns [R1, R2 or None] in BAM orientation."""
    if paired is None:
        paired = length > RLEN
    tags = {'SM': f'LIB_{cell}', 'RX': umi, 'BC': 'ACGTACGT'[:8], 'bi': cell if isinstance(cell, int) else 1, 'MX': 'NLAIII384C8U3',
            'LY': 'LIB'}
    if extra_tags:
        tags.update(extra_tags)
    flag_extra = 0x400 if duplicate_flag else 0
    r1len = RLEN if paired else length
    body = BG[7:7 + r1len - 4]
    if error:
        body = body[:5] + ('A' if body[5] != 'A' else 'C') + body[6:]
    seq_read = 'CATG' + body          # read orientation
    if not reverse:
        start = site
        seq = seq_read
        cig = f'{r1len}M' if clip == 0 else f'{clip}S{r1len - clip}M'
        pos = start + clip
    else:
        seq = revcomp(seq_read)
        end = site + 4
        cig = f'{r1len}M' if clip == 0 else f'{r1len - clip}M{clip}S'
        pos = end - r1len
    if not paired:
        r1 = make_read(HDR, name, seq, contig, pos, cig, reverse=reverse, read1=True, paired=False, tags=tags,
                       flag_extra=flag_extra, mapq=mapq)
        return [r1, None]
    if not reverse:
        r2_pos = site + length - RLEN + r2_end_shift
        r2_rev = True
    else:
        r2_pos = site + 4 - length - r2_end_shift
        r2_rev = False
    r2seq = BG[120:120 + RLEN]
    r1 = make_read(HDR, name, seq, contig, pos, cig, reverse=reverse, read1=True, paired=True,
                   mate=(contig, r2_pos, r2_rev, False), tags=tags, flag_extra=flag_extra, mapq=mapq)
    r2 = make_read(HDR, name, r2seq, contig, r2_pos, f'{RLEN}M', reverse=r2_rev, read1=False, paired=True,
                   mate=(contig, pos, reverse, False), tags=tags, flag_extra=flag_extra, mapq=mapq)
    return [r1, r2]


def chic_reads(name, contig, site, length, cell, umi, reverse=False, paired=None, r2_end_shift=0, duplicate_flag=False,
               extra_tags=None, mapq=60, clip=0):
    """Reads of one (untrimmed-layout, MX absent -> untrimmed) CHIC fragment whose site coordinate is `site`:
    forward R1 starts at site+1, reverse R1 ends (reference_end) at site."""
    if paired is None:
        paired = length > RLEN
    tags = {'SM': f'LIB_{cell}', 'RX': umi, 'BC': 'ACGTACGT', 'bi': cell if isinstance(cell, int) else 1, 'LY': 'LIB', 'lh': 'TA'}
    if extra_tags:
        tags.update(extra_tags)
    flag_extra = 0x400 if duplicate_flag else 0
    r1len = RLEN if paired else length
    seq = BG[30:30 + r1len]
    if not reverse:
        pos = site + 1
    else:
        pos = site - r1len
    # soft clip at the read start (5' end): leading S on forward reads, trailing S on reverse reads
    if clip:
        cig1 = f'{clip}S{r1len - clip}M' if not reverse else f'{r1len - clip}M{clip}S'
        pos1 = pos + clip if not reverse else pos
        # reverse: the aligned block loses its last `clip` reference bases, reference_end moves left
    else:
        cig1, pos1 = f'{r1len}M', pos
    if not paired:
        return [make_read(HDR, name, seq, contig, pos1, cig1, reverse=reverse, read1=True, paired=False, tags=tags,
                          flag_extra=flag_extra, mapq=mapq), None]
    if not reverse:
        r2_pos = site + 1 + length - RLEN + r2_end_shift
        r2_rev = True
    else:
        r2_pos = site - length - r2_end_shift
        r2_rev = False
    r1 = make_read(HDR, name, seq, contig, pos1, cig1, reverse=reverse, read1=True, paired=True,
                   mate=(contig, r2_pos, r2_rev, False), tags=tags, flag_extra=flag_extra, mapq=mapq)
    r2 = make_read(HDR, name, BG[150:150 + RLEN], contig, r2_pos, f'{RLEN}M', reverse=r2_rev, read1=False, paired=True,
                   mate=(contig, pos1, reverse, False), tags=tags, flag_extra=flag_extra, mapq=mapq)
    return [r1, r2]


def delivery_coordinate(reads):
    """Position at which a coordinate-sorted BAM reader has seen all mates of the fragment."""
    return max(r.reference_start for r in reads if r is not None)


def partition_of(molecules):
    """canonical partition: sorted list of sorted read-name groups"""
    groups = []
    for m in molecules:
        names = sorted({r.query_name for r in m.iter_reads()})
        groups.append(tuple(names))
    return sorted(groups)
