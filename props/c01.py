"""C01 - demultiplexing conserves every read pair (demultiplexed XOR rejected).

Seam: the real loader loop DemultiplexingStrategyLoader.demultiplex(files, strategies=[s], targetFile=FastqHandle,
rejectHandle=FastqHandle|None, log_handle, library, maxReadPairs) reading real FASTQ files from a private
/dev/shm directory through the real FastqIterator and writing through the real gzip writers (joint and
single_cell=True), wired exactly as modularDemultiplexer/demux.py does.

Space: per registered strategy a read-pair class alphabet (gen/c01_reads.py); ALL words of length <= 2 over it
plus the one word holding every letter (gzip input), x configurations (paired/single end, rejects on/off,
joint/per-cell, barcode Hamming expansion 0/1, maxReadPairs None/1/2/3); a phred sweep (every quality
character = phred p); one long per-cell word that drives the handle limiter through prune + re-open.
Added by the audit: the empty word (an input file without records); the letters P (barcode mate ends exactly behind
the barcode+UMI prefix) and L (lower case bases); the file forms of the input (gzip for short words, last record
without a trailing newline, '+name' separator lines); several strategies selected for one run (-use A,B; judged by
what both readings of the property demand, see oracles.c01_accounting.check_multi); and demux.py as a script over
its input and option forms (-n below / at / above a chunk and a lane boundary, two lanes, plain / .fq input, the
LIB_R1 / LIB.R1 / SRR naming forms, every file named twice, --se, --norejects, -hd 1, -use A,B, -use A,A, two libraries, -merge, --ignore, method
auto-detection, and the scheduler mode -sched slurm with an sbatch stand-in that runs the generated lane and glue job
scripts), with the counters of demultiplexing.log compared with the records written.
Oracle: oracles/c01_accounting.py (the property sentence, by accounting of id tokens; no expected values).
"""
import contextlib
import io
import os
import shutil
import tempfile

from mc import bind
from gen import c01_reads as G
from oracles import c01_accounting as O

ID = 'C01'
DESIGN_REF = 'DESIGN.md section 3, C01'
RULE = ('per strategy: every word of length <= 2 over the read-pair class alphabet (+ the word of all letters, '
        '+ the empty word, + phred sweep words [Qp],[Qp,W],[W,Qp], + one long per-cell word) x configuration; words of '
        'length <= 2 over the base letters x input file form (gzip / no final newline / +name lines); words of length '
        '<= 2 over the letters of two or three strategies selected together; demux.py run as a script over its '
        'input-file and option forms; each pushed through '
        'the real loader loop with real files; states = distinct (strategy, configuration, word); transitions = '
        'read pairs consumed; a case is non-trivial when the run wrote at least one pair to the demultiplexed '
        'output AND at least one to the rejects in the same run (both sinks live, so a lost, doubled or '
        'desynchronised record shows)')
ASSUMPTIONS = [
    'well-formed FASTQ input (4-line records, len(seq)==len(qual)), Sanger qualities phred 0..93',
    'library name short enough for the 255 character header limit (overflow belongs to C04)',
    'maxReadPairs >= 1 (demux.py never passes 0)',
    'several strategies selected at once: only the clauses both readings of the property share (at least once, at '
    'most once per selected strategy, mates / order / reject content / counters) - whether a pair two strategies '
    'accept belongs in the output once or twice is left open by the statement',
    'command line: libraries of one kind (all lanes paired or all single end), both mates of a lane in one directory',
    'sequencing index parser with Hamming expansion 1 and alias illumina_merged_ThruPlex48S_RP (demux.py defaults)',
    'the 10x whitelist is empty in this snapshot: CHROMC16U12 can only reject',
]

LIBRARY = 'L1'
INDEX_ALIAS = 'illumina_merged_ThruPlex48S_RP'
QUICK_PHREDS = [0, 10, 31, 40, 41, 51, 52, 53, 93]      # 10 = '+', 31 = '@': a quality line that looks like a marker line
LONG_PAIRS = 7000          # 6/7 accepted x 2 mates = 12000 handle-limiter writes > pruneEvery (10000): prune, then re-open (append)
LONG_STRATEGIES_QUICK = ['CS2C8U6']
LONG_STRATEGIES_THOROUGH = ['CS2C8U6', 'NLAIII384C8U3', 'scCHIC384C8U3', 'SCARC8R2', 'DamID2_3u4b3u6b', 'TCHIC']

_STATE = {}
_DEVNULL = None


# ------------------------------------------------------------------------------------------------ setup
def setup():
    """Build parsers and loaders once (before the workers fork)."""
    if _STATE:
        return
    global _DEVNULL
    _DEVNULL = open(os.devnull, 'w')
    import singlecellmultiomics.barcodeFileParser.barcodeFileParser as bfp
    from singlecellmultiomics.modularDemultiplexer import demultiplexingStrategyLoader as L
    from singlecellmultiomics.fastqProcessing import fastqHandle as FH
    loader_cls = bind.seam(L, 'DemultiplexingStrategyLoader')
    _STATE['FastqHandle'] = bind.seam(FH, 'FastqHandle')
    pkg = os.path.join(bind.REPO, 'singlecellmultiomics', 'modularDemultiplexer')
    bdir, idir = os.path.join(pkg, 'barcodes') + '/', os.path.join(pkg, 'indices') + '/'
    if not os.path.isdir(bdir) or not os.path.isdir(idir):
        raise bind.HarnessError(f'barcode / index directories missing under {pkg}')
    with contextlib.redirect_stdout(_DEVNULL), contextlib.redirect_stderr(_DEVNULL):
        ip = bfp.BarcodeParser(hammingDistanceExpansion=1, barcodeDirectory=idir)
        bps, loaders = {}, {}
        for hd in (0, 1):
            bps[hd] = bfp.BarcodeParser(hammingDistanceExpansion=hd, barcodeDirectory=bdir,
                                        lazyLoad=("10x_3M-february-2018",))
            loaders[hd] = loader_cls(barcodeParser=bps[hd], indexParser=ip, indexFileAlias=INDEX_ALIAS)
    if not hasattr(loaders[0], 'demultiplex'):
        raise bind.HarnessError('seam-missing DemultiplexingStrategyLoader.demultiplex')
    names = [s.shortName for s in loaders[0].demultiplexingStrategies]
    if len(set(names)) != len(names) or not names:
        raise bind.HarnessError(f'strategy short names not unique / empty: {names}')
    _STATE.update(bps=bps, ip=ip, loaders=loaders, names=names, alph={})
    try:
        for n in names:
            _STATE['alph'][n] = G.Alphabet(n, bps[0], bps[1], ip, INDEX_ALIAS)
    except G.GeneratorError as e:
        raise bind.HarnessError(f'C01 generator: {e}')


def _strategy(hd, short):
    for s in _STATE['loaders'][hd].demultiplexingStrategies:
        if s.shortName == short:
            return s
    raise bind.HarnessError(f'strategy {short} not registered')


# ------------------------------------------------------------------------------------------------ space
DEFAULT = {'end': 'pe', 'rejects': True, 'out': 'joint', 'hd': 0, 'max': None}


def _configs(tier):
    if tier == 'quick':
        out = [dict(DEFAULT)]
        for k, vals in (('end', ['se']), ('rejects', [False]), ('out', ['percell']), ('hd', [1]), ('max', [1, 2, 3])):
            for val in vals:
                c = dict(DEFAULT)
                c[k] = val
                out.append(c)
        return out
    return [{'end': e, 'rejects': r, 'out': o, 'hd': h, 'max': m}
            for e in ('pe', 'se') for r in (True, False) for o in ('joint', 'percell') for h in (0, 1)
            for m in (None, 1, 2, 3)]


def _phred_configs(tier):
    if tier == 'quick':
        return [dict(DEFAULT)]
    out = [dict(DEFAULT)]
    for k, val in (('end', 'se'), ('rejects', False), ('out', 'percell')):
        c = dict(DEFAULT)
        c[k] = val
        out.append(c)
    return out


def _phreds(tier):
    return QUICK_PHREDS if tier == 'quick' else list(range(94))


def bounds(tier):
    setup()
    alph = _STATE['alph']
    return {
        'strategies': _STATE['names'],
        'letters_per_strategy': {n: len(alph[n].letters) for n in _STATE['names']},
        'alphabet_example': alph.get('CS2C8U6', next(iter(alph.values()))).letters,
        'word_lengths': [0, 1, 2, 'all-letters', f'each letter x {REPEAT}'],
        'input_file_forms': {'forms': [f['name'] for f in _file_forms(tier)], 'words': 'length <= 2 over the base letters',
                             'configurations': len(_phred_configs(tier))},
        'strategies_selected_together': {'sets': ['+'.join(m) for m in _multi_sets()], 'letters_per_member': MULTI_LETTERS,
                                         'word_lengths': [0, 1, 2], 'configurations': len(_configs(tier))},
        'command_line_forms': list(_cli_forms(tier)),
        'configurations': len(_configs(tier)),
        'configuration_axes': {'end': ['pe', 'se'], 'rejects': [True, False], 'out': ['joint', 'percell'], 'hd': [0, 1],
                               'maxReadPairs': [None, 1, 2, 3],
                               'scope': 'default + every configuration at distance 1' if tier == 'quick' else 'full product'},
        'phreds': _phreds(tier),
        'phred_configurations': len(_phred_configs(tier)),
        'long_percell_word': {'pairs': LONG_PAIRS, 'maxHandles': 2,
                              'strategies': LONG_STRATEGIES_QUICK if tier == 'quick' else LONG_STRATEGIES_THOROUGH},
    }


REPEAT = 40
CLI_INPUT_FORMS = ('args-sorted', 'args-shuffled', 'listfile-sorted', 'listfile-mates-in-different-order', 'args-percell-rerun')
# how the input files are written (words of length <= 2 over the base letters); the plain, newline terminated, '+' form
# is what every other shard uses
FILE_FORMS = [
    {'name': 'gz', 'gz': True},
    {'name': 'no-final-newline', 'nonl': True},
    {'name': 'plus-name', 'plus': True},
    {'name': 'fq.gz+no-final-newline+plus-name', 'gz': True, 'nonl': True, 'plus': True, 'fq': True},
]
# strategies selected together (demux.py -use A,B): the documented combination, two that accept the same reads, two
# that share a whitelist, two that exclude each other, and a triple
MULTI_SETS = [('MSPJIC8U3', 'CS2C8U6'), ('CS2C8U6', 'CS2C8U6NH'), ('NLAIII384C8U3', 'scCHIC384C8U3'),
              ('CS2C8U6', 'NLAIII384C8U3'), ('CS2C8U6', 'MSPJIC8U3', 'NLAIII384C8U3')]
MULTI_LETTERS = ['W', 'M', 'U', 'S', 'E']
# demux.py forms added by the audit: name -> tier in which it starts to run
CLI_MORE = {
    'n-at-chunk-boundary': 'quick', 'n-inside-second-chunk': 'quick', 'two-lanes-n-inside-second-lane': 'quick',
    'plain-fastq': 'quick', 'name-LIB_R1': 'quick', 'single-end': 'quick', 'norejects': 'quick', 'use-two': 'quick',
    'two-libraries': 'quick', 'sched-lane-jobs': 'quick', 'two-lanes-n-at-lane-boundary': 'quick',
    'args-duplicated': 'quick', 'use-same-twice': 'quick',
    'n-inside-first-chunk': 'thorough', 'n-above-total': 'thorough', 'two-lanes': 'thorough',
    'fq-gz': 'thorough', 'fq-plain': 'thorough', 'name-LIB.R1': 'thorough',
    'name-SRR': 'thorough', 'single-end-n': 'thorough', 'hd1': 'thorough', 'merge-two-samples': 'thorough',
    'ignore-orphan': 'thorough', 'autodetect': 'thorough', 'percell-norejects': 'thorough', 'sched-nochunk': 'thorough',
}


def _file_forms(tier):
    # quick: the newline form alone and all three forms together; thorough: every form alone as well
    return [FILE_FORMS[1], FILE_FORMS[3]] if tier == 'quick' else list(FILE_FORMS)


def _multi_sets():
    return [m for m in MULTI_SETS if all(n in _STATE['names'] for n in m)]


def _cli_forms(tier):
    return list(CLI_INPUT_FORMS) + [n for n, t in CLI_MORE.items() if t == 'quick' or tier != 'quick']


def shards(tier):
    setup()
    out = []
    for n in _STATE['names']:
        for c in _configs(tier):
            out.append(('words', n, c))
    for n in _STATE['names']:
        for c in _phred_configs(tier):
            out.append(('phred', n, c))
    for n in (LONG_STRATEGIES_QUICK if tier == 'quick' else LONG_STRATEGIES_THOROUGH):
        if n in _STATE['names']:
            out.append(('long', n, None))
    # the command line itself (demux.py run as a script in a fresh interpreter): how the input files are given
    for how in CLI_INPUT_FORMS:
        out.append(('cli', 'CS2C8U6', how))
    # audit additions (appended so that the shards above keep their groups)
    for how in _cli_forms(tier)[len(CLI_INPUT_FORMS):]:
        # the single-end forms use a strategy that accepts single-end reads
        out.append(('cli', 'NLAIII384C8U3SE' if how.startswith('single-end') else 'CS2C8U6', how))
    for n in _STATE['names']:
        for c in _phred_configs(tier):
            out.append(('fileform', n, c))
    for m in _multi_sets():
        for c in _configs(tier):
            out.append(('multi', list(m), c))
    return out


def _words(short):
    letters = _STATE['alph'][short].letters
    yield []              # an input file without a single record (an empty lane chunk)
    for a in letters:
        yield [a]
    for a in letters:
        for b in letters:
            yield [a, b]
    yield list(letters)
    # one class many times in a row: counters / limiters that only change behaviour after N occurrences
    for a in letters:
        yield [a] * REPEAT


def _base_words(short):
    letters = _STATE['alph'][short].base_letters
    yield []
    for a in letters:
        yield [a]
    for a in letters:
        for b in letters:
            yield [a, b]


def _multi_letters(members):
    out = []
    for i, n in enumerate(members):
        a = _STATE['alph'][n]
        for l in MULTI_LETTERS:
            if l in a.base_letters and (l in a.bc or l in ('S', 'E')):
                out.append(f'{i}:{l}')
    return out


def _multi_words(members):
    letters = _multi_letters(members)
    yield []
    for a in letters:
        yield [a]
    for a in letters:
        for b in letters:
            yield [a, b]


def _long_word(short):
    a = _STATE['alph'][short]
    cyc = ['W', 'W2', 'W3', 'W', 'W2', 'W3', 'U'] if 'W2' in a.bc and 'U' in a.bc else ['W', 'W', 'W', 'S']
    return [cyc[i % len(cyc)] for i in range(LONG_PAIRS)]


# ------------------------------------------------------------------------------------------------ one run
def _inputs(short, word):
    if isinstance(short, (list, tuple)):
        # several strategies: a letter is '<member index>:<letter of that member's alphabet>'
        out = []
        for k, letter in enumerate(word):
            i, l = letter.split(':', 1)
            out.append(_STATE['alph'][short[int(i)]].pair(l, k))
        return out
    a = _STATE['alph'][short]
    return [a.pair(letter, k) for k, letter in enumerate(word)]


def run_case(case, workdir=None):
    """Run ONE case on the real loader; -> (violations [(signature, detail)], fates, processed)."""
    setup()
    multi = 'strategies' in case
    short, cfg = (list(case['strategies']) if multi else case['strategy']), case['config']
    word = case['word'] if 'word' in case else _long_word(short)
    form = case.get('form') or {}
    gz = bool(case.get('gz')) or bool(form.get('gz'))
    max_handles = case.get('maxHandles', 500)
    paired = cfg['end'] == 'pe'
    percell = cfg['out'] == 'percell'
    try:
        inputs = _inputs(short, word)
    except G.GeneratorError as e:
        raise bind.HarnessError(f'C01 generator: {e}')
    own = workdir is None
    d = tempfile.mkdtemp(prefix='c01_', dir='/dev/shm') if own else workdir
    try:
        files = []
        for mi in range(2 if paired else 1):
            p = os.path.join(d, f'in_R{mi + 1}' + ('.fq' if form.get('fq') else '.fastq') + ('.gz' if gz else ''))
            text = G.fastq_text([pr[mi] for pr in inputs], plus_header=bool(form.get('plus')),
                                final_newline=not form.get('nonl'))
            if gz:
                import gzip
                with gzip.open(p, 'wt', compresslevel=1) as f:
                    f.write(text)
            else:
                with open(p, 'w') as f:
                    f.write(text)
            files.append(p)
        odir = os.path.join(d, 'out')
        os.mkdir(odir)
        pd, pr_ = os.path.join(odir, 'demultiplexed'), os.path.join(odir, 'rejects')
        FastqHandle = _STATE['FastqHandle']
        loader = _STATE['loaders'][cfg['hd']]
        strategies = [_strategy(cfg['hd'], n) for n in short] if multi else [_strategy(cfg['hd'], short)]
        log = io.StringIO()
        exc = None
        processed, yields = None, {}
        with contextlib.redirect_stdout(_DEVNULL), contextlib.redirect_stderr(_DEVNULL):
            target = reject = None
            try:
                # as demux.py: FastqHandle(prefix, paired_end, single_cell=args.scsepf, maxHandles=args.fh);
                # the rejects handle is always joint
                target = FastqHandle(pd, paired, single_cell=percell, maxHandles=max_handles)
                reject = FastqHandle(pr_, paired) if cfg['rejects'] else None
                processed, yields = loader.demultiplex(files, strategies=strategies, targetFile=target,
                                                       rejectHandle=reject, log_handle=log, library=LIBRARY,
                                                       maxReadPairs=cfg['max'])
            except Exception as e:           # the loader loop itself gave up: every remaining pair is lost
                exc = e
            finally:
                for h in (target, reject):
                    if h is not None:
                        try:
                            h.close()
                        except Exception as e:
                            exc = exc or e
        ctx = cfg['end'] + (':percell' if percell else '') + ('' if cfg['rejects'] else ':norejects')
        if multi:
            ctx = f'{len(short)}-strategies:' + ctx
        if exc is not None:
            return ([(f'loader:exception:{type(exc).__name__}:{ctx}',
                      {'exception': repr(exc), 'input_R1': G.fastq_text([p[0] for p in inputs[:3]])})],
                    ['!'] * len(inputs), 0)
        out = O.collect(pd, pr_, paired, percell, cfg['rejects'])
        if multi:
            raw, fates = O.check_multi(inputs, paired, percell, cfg['rejects'], cfg['max'], short, processed,
                                       dict(yields), log.getvalue(), out)
        else:
            raw, fates = O.check(inputs, paired, percell, cfg['rejects'], cfg['max'], short, processed, dict(yields),
                                 log.getvalue(), out)
        viols, seen = [], set()
        for clause, pos, detail in raw:
            sig = f'{clause}:{ctx}'
            if pos is not None:
                sig += ':' + G.letter_kind(word[pos].split(':', 1)[1] if multi else word[pos])
            if sig in seen:
                continue
            seen.add(sig)
            info = {'what': detail, 'fates': ''.join(fates[:12]), 'returned': [processed, dict(yields)]}
            if pos is not None:
                info['offending_pair'] = {'position': pos, 'letter': word[pos],
                                          'R1': list(inputs[pos][0]), 'R2': list(inputs[pos][1]) if paired else None}
            viols.append((sig, info))
        return viols, fates, processed
    finally:
        if own:
            shutil.rmtree(d, ignore_errors=True)
        else:
            for fn in os.listdir(d):
                p = os.path.join(d, fn)
                if os.path.isdir(p):
                    shutil.rmtree(p, ignore_errors=True)
                else:
                    os.unlink(p)


def _outcome(cfg, fates):
    f = ''.join(fates)
    if len(f) > 3:
        f = ''.join(f'{ch}{f.count(ch)}' for ch in 'AR-?BD.!' if ch in f)
    return f'{cfg["end"]}:{cfg["out"]}:{f}'


def run_cli(short, how):
    """demux.py as a script on a lane split into two chunks per mate; -> (violations, fates)"""
    import gzip
    import subprocess
    import sys
    setup()
    word = ['W', 'U', 'W2', 'W', 'W3', 'S', 'W', 'W2', 'U', 'W', 'W3', 'T']
    word = [w for w in word if w in _STATE['alph'][short].letters or w in _STATE['alph'][short].bc] or ['W'] * 6
    try:
        inputs = _inputs(short, word)
    except G.GeneratorError as e:
        raise bind.HarnessError(f'C01 generator: {e}')
    d = tempfile.mkdtemp(prefix='c01cli_', dir='/dev/shm')
    try:
        half = len(inputs) // 2
        files = {}
        for ci, ch in enumerate((inputs[:half], inputs[half:])):
            for mi in range(2):
                p = os.path.join(d, f'LIB_L001_R{mi + 1}_00{ci + 1}.fastq.gz')
                with gzip.open(p, 'wt', compresslevel=1) as f:
                    f.write(G.fastq_text([pr[mi] for pr in ch]))
                files[(mi, ci)] = p
        order_sorted = [files[(0, 0)], files[(0, 1)], files[(1, 0)], files[(1, 1)]]
        if how in ('args-sorted', 'args-percell-rerun'):
            argv = order_sorted
        elif how == 'args-shuffled':
            argv = [files[(1, 1)], files[(0, 0)], files[(1, 0)], files[(0, 1)]]
        else:
            lst = os.path.join(d, 'files.list')
            order = order_sorted if how == 'listfile-sorted' else [files[(0, 0)], files[(0, 1)], files[(1, 1)], files[(1, 0)]]
            with open(lst, 'w') as f:
                f.write('\n'.join(order) + '\n')
            argv = [lst]
        out = os.path.join(d, 'out')
        script = os.path.join(bind.REPO, 'singlecellmultiomics', 'modularDemultiplexer', 'demux.py')
        env = dict(os.environ, PYTHONPATH=bind.REPO)
        percell = (how == 'args-percell-rerun')
        base = [sys.executable, script] + argv + ['--y', '-use', short, '-o', out] + (['--scsepf'] if percell else [])
        runs = [base + ['-n', '3'], base] if percell else [base]      # a try-out on a few reads, then the full run, same -o
        for cmd in runs:
            r = subprocess.run(cmd, capture_output=True, text=True, env=env, cwd=d, timeout=600)
            if r.returncode != 0:
                return [(f'cli:{how}:demux.py-exit-{r.returncode}', r.stderr[-600:])], []
        lib = os.path.join(out, 'LIB')
        if not os.path.isdir(lib):
            return [(f'cli:{how}:no-output-directory', os.listdir(out) if os.path.isdir(out) else None)], []
        if percell:
            # per-cell files are named <prefix>.<cell>.<MX>.R1.fastq.gz; collect() expects the prefix the handle was given
            res = O.collect(os.path.join(lib, 'demultiplexed'), os.path.join(lib, 'rejects'), True, True, True)
        else:
            res = O.collect(os.path.join(lib, 'demultiplexed'), os.path.join(lib, 'rejects'), True, False, True)
        logp = os.path.join(lib, 'demultiplexing.log')
        log_text = open(logp).read() if os.path.exists(logp) else ''
        processed, yields = O.parse_log(log_text)
        raw, fates = O.check(inputs, True, percell, True, None, short, processed if processed is not None else len(inputs),
                             yields or {short: sum(1 for _ in [])}, log_text, res)
        viols, seen = [], set()
        for clause, pos, detail in raw:
            if clause.startswith('yield-counter') or clause.startswith('processedReadPairs'):
                continue      # the log holds one block per chunk; the counters are judged at loader level
            sig = f'cli:{how}:{clause}'
            if sig not in seen:
                seen.add(sig)
                viols.append((sig, {'what': detail, 'fates': ''.join(fates)}))
        return viols, fates
    finally:
        shutil.rmtree(d, ignore_errors=True)

# ------------------------------------------------------------------------------------------------ demux.py forms
CLI_WORD = ['W', 'U', 'W2', 'W', 'W3', 'S', 'W', 'W2', 'U', 'W', 'W3', 'T']


def _cli_scenario(how, short):
    """-> dict(groups=[(library key, [pairs], file stem, style)], ext, end, opts, n, strategies, percell, rejects, sched)
    A group is one set of mate files (a lane chunk).  Pairs are numbered in the order demux.py has to process them
    (libraries, lanes and chunks in sorted file order), so 'input order' is the id order inside every library."""
    a = _STATE['alph'][short]
    sc = {'ext': '.fastq.gz', 'end': 'pe', 'opts': [], 'n': None, 'strategies': [short], 'percell': False,
          'rejects': True, 'sched': None, 'use': True, 'orphan': False, 'dup': False}
    word = [w for w in CLI_WORD if w in a.letters or w in a.bc] or ['W'] * 12
    layout = 'one-lane'
    if how.startswith('n-') or how.startswith('two-lanes'):
        sc['n'] = {'n-inside-first-chunk': 4, 'n-at-chunk-boundary': 6, 'n-inside-second-chunk': 8, 'n-above-total': 20,
                   'two-lanes': None, 'two-lanes-n-inside-second-lane': 7, 'two-lanes-n-at-lane-boundary': 6}[how]
        if how.startswith('two-lanes'):
            layout = 'two-lanes'
    elif how in ('plain-fastq', 'fq-gz', 'fq-plain'):
        sc['ext'] = {'plain-fastq': '.fastq', 'fq-gz': '.fq.gz', 'fq-plain': '.fq'}[how]
    elif how.startswith('name-'):
        layout = how
    elif how in ('single-end', 'single-end-n'):
        sc['end'] = 'se'
        sc['opts'] = ['--se']
        if how == 'single-end-n':
            sc['n'] = 8
    elif how == 'norejects':
        sc['opts'], sc['rejects'] = ['--norejects'], False
    elif how == 'percell-norejects':
        sc['opts'], sc['rejects'], sc['percell'] = ['--norejects', '--scsepf'], False, True
    elif how == 'hd1':
        sc['opts'] = ['-hd', '1']
        if 'M' in a.bc:
            word = [('M' if i in (1, 7) else w) for i, w in enumerate(word)]
    elif how == 'use-two':
        sc['strategies'] = [short, 'MSPJIC8U3']
    elif how == 'use-same-twice':
        # the same strategy named twice (a wrapper concatenating method lists): it is still ONE selected strategy
        sc['use_arg'] = f'{short},{short}'
    elif how == 'two-libraries':
        layout = 'two-libraries'
    elif how == 'merge-two-samples':
        layout = 'merge'
    elif how == 'ignore-orphan':
        sc['opts'], sc['orphan'] = ['--ignore'], True
    elif how == 'autodetect':
        sc['use'] = False
    elif how == 'args-duplicated':
        sc['dup'] = True            # every file named twice on the command line: still each pair once
    elif how == 'sched-lane-jobs':
        layout, sc['sched'] = 'two-lanes', 'chunked'
    elif how == 'sched-nochunk':
        layout, sc['sched'], sc['opts'] = 'two-lanes', 'nochunk', ['--nochunk']
    else:
        raise bind.HarnessError(f'unknown command line form {how}')
    if how == 'use-two':
        b = _STATE['alph']['MSPJIC8U3']
        pairs = [(b if i % 3 == 1 else a).pair(w if (i % 3 != 1 or w in b.bc or w in b.letters) else 'W', i)
                 for i, w in enumerate(word)]
    else:
        pairs = [a.pair(w, i) for i, w in enumerate(word)]
    n = len(pairs)
    if layout == 'one-lane':
        groups = [('LIB', pairs[:n // 2], 'LIB_L001_R{m}_001', 0), ('LIB', pairs[n // 2:], 'LIB_L001_R{m}_002', 0)]
    elif layout == 'two-lanes':
        q = n // 4
        groups = [('LIB', pairs[:q], 'LIB_L001_R{m}_001', 0), ('LIB', pairs[q:2 * q], 'LIB_L001_R{m}_002', 0),
                  ('LIB', pairs[2 * q:3 * q], 'LIB_L002_R{m}_001', 0), ('LIB', pairs[3 * q:], 'LIB_L002_R{m}_002', 0)]
    elif layout == 'two-libraries':
        q = n // 4
        groups = [('A', pairs[:q], 'LIBA_L001_R{m}_001', 0), ('A', pairs[q:2 * q], 'LIBA_L001_R{m}_002', 0),
                  ('B', pairs[2 * q:3 * q], 'LIBB_L001_R{m}_001', 0), ('B', pairs[3 * q:], 'LIBB_L001_R{m}_002', 0)]
    elif layout == 'merge':
        # two samples whose names differ behind the first '_': the default -merge _ makes them one library
        groups = [('LIB', pairs[:n // 2], 'LIB_a_L001_R{m}_001', 0), ('LIB', pairs[n // 2:], 'LIB_b_L001_R{m}_001', 0)]
    elif layout == 'name-LIB_R1':
        groups = [('LIB', pairs, 'LIB_R{m}', 0)]
    elif layout == 'name-LIB.R1':
        groups = [('LIB', pairs, 'LIB.R{m}', 0)]
    elif layout == 'name-SRR':
        groups = [('LIB', pairs, 'SRR123_{m}', 0)]
    else:
        raise bind.HarnessError(f'unknown layout {layout}')
    sc['groups'] = groups
    return sc


def _write_fastq(path, records):
    import gzip
    text = G.fastq_text(records)
    if path.endswith('.gz'):
        with gzip.open(path, 'wt', compresslevel=1) as f:
            f.write(text)
    else:
        with open(path, 'w') as f:
            f.write(text)


_SBATCH = """#!/bin/sh
# stand-in for the scheduler: runs the submitted job script at once (jobs are submitted in dependency order)
for a in "$@"; do f="$a"; done
n=$(cat "$C01_JOBS/count" 2>/dev/null || echo 0); n=$((n+1)); echo $n > "$C01_JOBS/count"
if ! sh "$f" > "$f.log" 2>&1; then echo "$f" >> "$C01_JOBS/failed"; fi
echo "Submitted batch job $n"
"""


def run_cli2(short, how):
    """demux.py as a script, forms added by the audit; -> (violations, fates)"""
    import glob
    import subprocess
    import sys
    setup()
    try:
        sc = _cli_scenario(how, short)
    except G.GeneratorError as e:
        raise bind.HarnessError(f'C01 generator: {e}')
    paired = sc['end'] == 'pe'
    d = tempfile.mkdtemp(prefix='c01cli_', dir='/dev/shm')
    try:
        ind = os.path.join(d, 'in')
        os.mkdir(ind)
        argv = []
        for lib, prs, stem, _ in sc['groups']:
            for mi in range(2 if paired else 1):
                p = os.path.join(ind, stem.format(m=mi + 1) + sc['ext'])
                _write_fastq(p, [pr[mi] for pr in prs])
                argv.append(p)
        if sc['orphan']:
            # a lane of another sample whose second mate file is missing; --ignore tells demux.py to leave it out
            a = _STATE['alph'][short]
            p = os.path.join(ind, 'OTHER_L001_R1_001' + sc['ext'])
            _write_fastq(p, [a.pair('W', 50 + i)[0] for i in range(3)])
            argv.append(p)
        argv = sorted(argv, reverse=True)       # demux.py sorts its arguments itself
        if sc['dup']:
            argv = argv + argv
        out = os.path.join(d, 'out')
        script = os.path.join(bind.REPO, 'singlecellmultiomics', 'modularDemultiplexer', 'demux.py')
        env = dict(os.environ, PYTHONPATH=bind.REPO)
        opts = list(sc['opts']) + (['-use', sc.get('use_arg') or ','.join(sc['strategies'])] if sc['use'] else []) + ['-o', out]
        if sc['n'] is not None:
            opts += ['-n', str(sc['n'])]
        if sc['sched'] is None:
            cmd = [sys.executable, script] + argv + ['--y'] + opts
        else:
            # the installed form of the script (executable, interpreter in the shebang line) and an sbatch stand-in
            bindir = os.path.join(d, 'bin')
            os.mkdir(bindir)
            src = open(script).read().split('\n')
            if src and src[0].startswith('#!'):
                src = src[1:]
            inst = os.path.join(bindir, 'demux.py')
            with open(inst, 'w') as f:
                f.write(f'#!{sys.executable}\n' + '\n'.join(src))
            os.chmod(inst, 0o755)
            with open(os.path.join(bindir, 'sbatch'), 'w') as f:
                f.write(_SBATCH)
            os.chmod(os.path.join(bindir, 'sbatch'), 0o755)
            jobs = os.path.join(d, 'jobs')
            os.mkdir(jobs)
            env.update(PATH=bindir + os.pathsep + os.path.dirname(sys.executable) + os.pathsep + env.get('PATH', ''),
                       C01_JOBS=jobs)
            cmd = [inst] + argv + opts + ['-sched', 'slurm']
        r = subprocess.run(cmd, capture_output=True, text=True, env=env, cwd=d, timeout=900)
        if r.returncode != 0:
            return [(f'cli:{how}:demux.py-exit-{r.returncode}', r.stderr[-600:])], []
        if sc['sched'] is not None and os.path.exists(os.path.join(d, 'jobs', 'failed')):
            failed = open(os.path.join(d, 'jobs', 'failed')).read().split()
            tail = open(failed[0] + '.log').read()[-600:] if failed and os.path.exists(failed[0] + '.log') else ''
            return [(f'cli:{how}:submitted-job-failed', {'jobs': [os.path.basename(x) for x in failed], 'log': tail})], []
        libdirs = sorted(x for x in (os.listdir(out) if os.path.isdir(out) else []) if os.path.isdir(os.path.join(out, x)))
        libdirs = [x for x in libdirs if x != 'cluster']
        # which output directory belongs to which input library: the one that holds records of it
        libs = []
        for lib, prs, _, _ in sc['groups']:
            if lib not in [l for l, _ in libs]:
                libs.append((lib, []))
            dict(libs)[lib].extend(prs)
        if not libdirs:
            return [(f'cli:{how}:no-output-directory', {'stdout': r.stdout[-300:]})], []
        viols, seen, all_fates = [], set(), []

        def add(clause, detail):
            sig = f'cli:{how}:{clause}'
            if sig not in seen:
                seen.add(sig)
                viols.append((sig, detail))

        per_dir = {}
        for x in libdirs:
            pref = ''
            if sc['sched'] == 'nochunk':
                # a job that is not split in lanes still gets a group id: its outputs keep the <id>_TEMP_ prefix
                cands = sorted({os.path.basename(f).split('demultiplexed')[0] for f in glob.glob(os.path.join(out, x, '*demultiplexed*'))})
                if len(cands) == 1:
                    pref = cands[0]
            per_dir[x] = (pref, O.collect(os.path.join(out, x, pref + 'demultiplexed'), os.path.join(out, x, pref + 'rejects'),
                                          paired, sc['percell'], sc['rejects']))
        assigned = {x: [] for x in libdirs}
        for lib, prs in libs:
            ids = {O.ident(pr[0][0]) for pr in prs}
            home = None
            for x in libdirs:
                res = per_dir[x][1]
                found = set()
                for files in list(res.dem.values()) + ([res.rej] if res.rej else []):
                    for recs in files.values():
                        found.update(O.ident(rec[0]) for rec in recs)
                if ids & found:
                    home = x
                    break
            assigned[home if home is not None else libdirs[0]].extend(prs)
        k = len(sc['strategies'])
        for x in libdirs:
            pref, res = per_dir[x]
            inputs = assigned[x]
            logp = os.path.join(out, x, pref + 'demultiplexing.log')
            log_text = open(logp).read() if os.path.exists(logp) else ''
            runs = O.parse_cli_log(log_text)
            processed = sum(b[0] for run in runs for b in run['blocks'])
            yields = {}
            for run in runs:
                for b in run['blocks']:
                    for s_, c in b[1].items():
                        yields[s_] = yields.get(s_, 0) + c
            if not sc['use']:
                names = [s_ for s_ in yields] or [short]       # whatever the auto-detection selected (at most one method)
                k = max(1, len(names))
            else:
                names = sc['strategies']
            # in scheduler mode with lane jobs -n is a per-job option; it is not combined with it here
            if k == 1:
                raw, fates = O.check(inputs, paired, sc['percell'], sc['rejects'], sc['n'], names[0], processed, yields,
                                     f'processed {processed} read pairs\nStrategy\tReads\n' +
                                     ''.join(f'{s_}\t{c}\n' for s_, c in yields.items()), res)
            else:
                raw, fates = O.check_multi(inputs, paired, sc['percell'], sc['rejects'], sc['n'], names, processed, yields,
                                           None, res)
            for clause, pos, detail in raw:
                add(clause, {'what': detail, 'fates': ''.join(fates), 'directory': x})
            # the log of the run(s): every block is followed by the running total, the last line says finished
            if not runs:
                add('log-without-a-run', {'log': log_text[-300:]})
            for run in runs:
                tot = 0
                sums = []
                for b in run['blocks']:
                    tot += b[0]
                    sums.append(tot)
                if run['cumulative'] != sums:
                    add('log-running-total-differs-from-blocks', {'running_totals': run['cumulative'], 'block_sums': sums})
                if not run['finished']:
                    add('log-not-finished', {'log': log_text[-300:]})
            all_fates += fates
        return viols, all_fates
    finally:
        shutil.rmtree(d, ignore_errors=True)


def run_shard(shard, tier, acc):
    setup()
    if shard[0] == 'cli':
        case = {'cli': shard[2], 'strategy': shard[1]}
        viols, fates = run_cli(shard[1], shard[2]) if shard[2] in CLI_INPUT_FORMS else run_cli2(shard[1], shard[2])
        acc.case(case, transitions=len(fates), nontrivial=True, outcome=f"cli:{shard[2]}:{''.join(fates)[:14]}")
        for sig, d in viols:
            acc.violation(sig, case, d)
        return
    kind, short, cfg = shard
    d = tempfile.mkdtemp(prefix='c01_', dir='/dev/shm')
    try:
        if kind == 'words':
            cases = ({'strategy': short, 'config': cfg, 'word': w, 'gz': len(w) > 2} for w in _words(short))
        elif kind == 'phred':
            def gen():
                for p in _phreds(tier):
                    q = f'Q{p}'
                    for w in ([q], [q, 'W'], ['W', q]):
                        yield {'strategy': short, 'config': cfg, 'word': w}
            cases = gen()
        elif kind == 'long':
            cases = [{'strategy': short, 'config': dict(DEFAULT, out='percell'), 'long': LONG_PAIRS, 'maxHandles': 2}]
        elif kind == 'fileform':
            cases = ({'strategy': short, 'config': cfg, 'word': w, 'form': f} for f in _file_forms(tier) for w in _base_words(short))
        elif kind == 'multi':
            cases = ({'strategies': short, 'config': cfg, 'word': w} for w in _multi_words(short))
        else:
            raise bind.HarnessError(f'unknown shard kind {kind}')
        for case in cases:
            viols, fates, processed = run_case(case, workdir=d)
            live = set(fates)
            acc.case(case, transitions=max(processed or 0, 1),
                     nontrivial=(('A' in live or 'B' in live) and ('R' in live or 'B' in live)),
                     outcome=(f'{kind}:' if kind in ('fileform', 'multi') else '') + _outcome(case['config'], fates))
            acc.count('pairs_demultiplexed', fates.count('A'))
            acc.count('pairs_rejected', fates.count('R'))
            if kind == 'multi':
                acc.count('pairs_in_both_sinks_with_several_strategies', fates.count('B'))
            if kind == 'fileform':
                acc.count('file_form:' + case['form']['name'], 1)
            if 'A' in fates:
                acc.count(f'accepting:{"+".join(short) if kind == "multi" else short}', 1)
            if kind == 'long':
                acc.count('long_word_handle_limiter_writes', 2 * fates.count('A'))
            for sig, detail in viols:
                acc.violation(sig, case, detail)
    finally:
        shutil.rmtree(d, ignore_errors=True)


def replay(case):
    if 'cli' in case:
        return (run_cli if case['cli'] in CLI_INPUT_FORMS else run_cli2)(case['strategy'], case['cli'])[0]
    if 'long' in case and case['long'] != LONG_PAIRS:
        raise bind.HarnessError('long word length changed since the replay was recorded')
    viols, _, _ = run_case(case)
    return viols
