"""C08 - parallel tagging is equivalent to serial tagging.

One serial run of the real command line is compared with (i) --multiprocess (contig per process) and (ii) the
region-tiling path of tag_multiome_multi_processing (one_contig_per_process=False) for EVERY tiling
(bin size x fetch margin x job size) of the alphabet, with and without a pool, under a scheduler-owned Pool with
every completion order (<=4 jobs) or every order within 2 adjacent swaps + reversal (more jobs).
The genome is tiny and holds a molecule on, one before and one after EVERY bin boundary any tiling produces,
on both strands, with 1-3 duplicates, several cells, rejects and unmapped reads.
"""
import os
import shutil
import tempfile

from gen.bam import Builder, records
from mc import tagger
from mc.bind import HarnessError, seam
from mc.sched import orders as sched_orders

ID = 'C08'
RULE = ('serial run vs every (bin size, fetch margin, job size, pool on/off) tiling and vs --multiprocess, each under every completion '
        'order of the jobs (all for <=4 jobs, <=2 adjacent swaps + reversal beyond); input holds molecules at B-1,B,B+1 for every bin '
        'boundary B of every tiling, both strands; non-trivial = run with >=3 jobs in a non-submission order; states = tagger runs, '
        'transitions = records compared')
ASSUMPTIONS = [
    'fetch margin >= longest fragment (60 nt), as the property states; smaller margins are not generated',
    'no blacklist (the tiling path raises NotImplementedError for one)',
    'per-run identifiers (mi, ix) and the order among equal coordinates are not compared',
    'the worker schedule reaches the output only through the order in which job results are delivered',
]
CONTIGS = [('c1', 2000), ('c2', 1500), ('c3', 300)]
# only used by the contig-per-process comparison: small contigs that together exceed the 100 kb small-contig threshold, and a large one
EXTRA_CONTIGS = [('m1', 60000), ('m2', 60000), ('m3', 45000), ('big', 150000)]
MAXFRAG = 60
IGNORE_TAGS = {'mi', 'ix'}


def bounds(tier):
    if tier == 'quick':
        return {'bin_sizes': [250, 700, 1000, 5000], 'fetch_margins': [60, 1000], 'job_sizes': ['b', '3b', 'inf'], 'methods': ['nla', 'chic'],
                'pool': [True, False], 'orders': 'all for <=4 jobs, else <=2 adjacent swaps + reversal'}
    return {'bin_sizes': [250, 500, 700, 1000, 5000], 'fetch_margins': [60, 100, 1000], 'job_sizes': ['b', '3b', 'inf'],
            'methods': ['nla', 'chic'], 'pool': [True, False], 'orders': 'all for <=5 jobs, else <=3 adjacent swaps + reversal'}


def tiling_boundaries(tier):
    """bin boundaries every tiling of the alphabet produces, from the real tiling function"""
    from singlecellmultiomics.bamProcessing.bamBinCounts import blacklisted_binning_contigs
    out = {c: set() for c, _ in CONTIGS}
    for b in bounds(tier)['bin_sizes']:
        for contig, s, e, fs, fe in blacklisted_binning_contigs(CONTIGS, b, MAXFRAG):
            out[contig].add(s)
            out[contig].add(e)
    return out


def build_input(path, method, tier, extra=False, dense=False):
    mx = 'scCHIC384C8U3' if method == 'chic' else 'NLAIII384C8U3'
    kw = dict(method=method, mx=mx)
    b = Builder(CONTIGS + (EXTRA_CONTIGS if extra else []))
    bnds = tiling_boundaries(tier)
    umis = ['AAA', 'ACG', 'CCT', 'GTA', 'TTC']
    k = 0
    for contig, length in CONTIGS:
        sites = set()
        for B in sorted(bnds[contig]):
            for d in (-1, 0, 1):
                sites.add(B + d)
        # the first and the last bases of the contig (remainder bins of a tiling are only a few bases wide)
        sites.update(range(0, 4))
        sites.update(range(length - 8, length))
        for site in sorted(sites):
            for reverse in (False, True):
                # the complete fragment must lie inside the contig, and the site itself must be a coordinate of the contig
                if method == 'chic':
                    lo = site + 2 if not reverse else site - 1 - MAXFRAG
                    hi = site + 2 + MAXFRAG if not reverse else site - 1
                else:
                    lo = site if not reverse else site + 4 - MAXFRAG
                    hi = site + MAXFRAG if not reverse else site + 4
                if lo < 0 or hi > length or not (0 <= site < length):
                    continue
                k += 1
                umi = umis[k % len(umis)]
                ndup = 1 + (k % 3)
                for j in range(ndup):
                    b.pair(contig, site, cell=1, umi=umi, reverse=reverse, frag=[50, 60, 40][j], **kw)
                if k % 4 == 0:
                    b.pair(contig, site, cell=2, umi=umi, reverse=reverse, frag=55, **kw)
                if k % 7 == 0:
                    b.pair(contig, site, cell=1, umi='GGG', reverse=reverse, motif='CTTG', frag=50, **kw)   # reject (nla)
        b.pair(contig, min(length - 100, 150), cell=2, umi='TGA', r2_unmapped=True, **kw)
    if dense:
        # a molecule in every 20-base bin, so that a one-bin-per-job tiling produces more than a hundred result files
        for contig, length in CONTIGS[:2]:
            for site in range(10, length - MAXFRAG - 10, 20):
                b.pair(contig, site, cell=3, umi='TCA', frag=45, **kw)
    if extra:
        for ci, (contig, length) in enumerate(EXTRA_CONTIGS):
            b.pair(contig, 1000 + ci, cell=1, umi='AAA', **kw)
            b.pair(contig, 1000 + ci, cell=1, umi='AAA', frag=45, **kw)
            b.pair(contig, length - 500, cell=2, umi='CGT', reverse=True, **kw)
    b.unmapped_pair()
    b.unmapped_pair(cell=2, umi='CCC')
    b.write(path)


def canon(recs):
    out = []
    for r in recs:
        tags = tuple(sorted((k, repr(v)) for k, v in r['tags'].items() if k not in IGNORE_TAGS))
        out.append((r['name'], r['mate'], r['flag'], r['contig'], r['pos'], r['cigar'], r['seq'], tags))
    return sorted(out)


def diff_signature(want, got):
    from collections import Counter
    cw, cg = Counter(want), Counter(got)
    lost = list((cw - cg).elements())
    extra = list((cg - cw).elements())
    ln = {(x[0], x[1]) for x in lost}
    en = {(x[0], x[1]) for x in extra}
    sigs = []
    if ln - en:
        sigs.append(('record-missing-in-parallel-output', [x[:5] for x in lost if (x[0], x[1]) not in en][:3]))
    if en - ln:
        sigs.append(('record-written-more-often-than-serial', [x[:5] for x in extra if (x[0], x[1]) not in ln][:3]))
    both = ln & en
    if both:
        # same record, different flag / tags
        ex = []
        kinds = set()
        for nm in sorted(both)[:50]:
            a = [x for x in lost if (x[0], x[1]) == nm][0]
            b = [x for x in extra if (x[0], x[1]) == nm][0]
            if a[2] != b[2]:
                kinds.add('flag')
            ta, tb = dict(a[7]), dict(b[7])
            for t in sorted(set(ta) | set(tb)):
                if ta.get(t) != tb.get(t):
                    kinds.add('tag-' + t)
            if len(ex) < 2:
                ex.append({'serial': (a[0], a[1], a[2], a[4], {t: v for t, v in ta.items() if tb.get(t) != v}),
                           'parallel': (b[0], b[1], b[2], b[4], {t: v for t, v in tb.items() if ta.get(t) != v})})
        sigs.append(('record-differs:' + '+'.join(sorted(kinds)[:4]), ex))
    return sigs


class Session:
    """one input BAM + its serial reference output, reused for all tilings of a shard"""

    def __init__(self, method, tier, extra=False, dense=False):
        self.method = method
        self.d = tempfile.mkdtemp(prefix='c08_', dir='/dev/shm')
        self.inp = os.path.join(self.d, 'in.bam')
        build_input(self.inp, method, tier, extra=extra, dense=dense)
        self.nrec = len(records(self.inp))
        self._serial = {}
        self.serial, self.serial_error = self.serial_for(())

    def serial_for(self, opts):
        """serial reference output for extra command-line options (cached per option tuple)"""
        opts = tuple(opts)
        if opts not in self._serial:
            out = os.path.join(self.d, 'serial.bam')
            for p in (out, out + '.bai'):
                if os.path.exists(p):
                    os.remove(p)
            exc, _ = tagger.run_tagger([self.inp, '-method', self.method, '-o', out, '-temp_folder', self.d] + list(opts))
            self._serial[opts] = (None, exc) if exc is not None else (canon(records(out)), None)
        return self._serial[opts]

    def close(self):
        shutil.rmtree(self.d, ignore_errors=True)

    def run_parallel(self, cfg, order, extra_opts=()):
        """cfg: None (= --multiprocess contig per process) or dict(b, f, j, pool). Returns (violations, njobs)"""
        tm = tagger.tagger_module()
        out = os.path.join(self.d, 'par.bam')
        for p in (out, out + '.bai'):
            if os.path.exists(p):
                os.remove(p)
        opts = list((cfg or {}).get('opts', ())) + list(extra_opts)
        serial, serial_error = self.serial_for(opts)
        if serial is None:
            return [(f'{self.method}:serial:exception:{type(serial_error).__name__}', repr(serial_error))], None
        argv = [self.inp, '-method', self.method, '-o', out, '-temp_folder', self.d, '--multiprocess'] + opts
        real = seam(tm, 'tag_multiome_multi_processing')
        if cfg is not None:
            def wrapper(**kw):
                kw['one_contig_per_process'] = False
                kw['bp_per_segment'] = cfg['b']
                kw['fragment_size'] = cfg['f']
                kw['bp_per_job'] = cfg['j']
                kw['use_pool'] = cfg['pool']
                return real(**kw)
            tm.tag_multiome_multi_processing = wrapper
        try:
            exc, sch = tagger.run_tagger(argv, order=order)
        finally:
            tm.tag_multiome_multi_processing = real
        tag = 'contig-per-process' if cfg is None else ('tiling' + ('' if cfg['pool'] else ':no-pool'))
        njobs = sch.log[0]['n'] if sch.log else None
        if exc is not None:
            return [(f'{self.method}:{tag}:exception:{type(exc).__name__}', repr(exc))], njobs
        if not os.path.exists(out):
            return [(f'{self.method}:{tag}:no-output', {})], njobs
        got = canon(records(out))
        if got == serial:
            return [], njobs
        if opts:
            tag += ':' + opts[0].lstrip('-')
        return [(f'{self.method}:{tag}:{s}', d) for s, d in diff_signature(serial, got)], njobs


def configs(tier):
    bd = bounds(tier)
    out = [None]
    for b in bd['bin_sizes']:
        for f in bd['fetch_margins']:
            for jn in bd['job_sizes']:
                j = {'b': b, '3b': 3 * b, 'inf': 10 ** 9}[jn]
                for pool in bd['pool']:
                    if not pool and jn != 'b':
                        continue       # without a pool there is no schedule; one job size suffices
                    out.append({'b': b, 'f': f, 'j': j, 'pool': pool})
    # a fine tiling with more than a hundred jobs (one bin per job)
    out.append({'b': 20, 'f': 60, 'j': 20, 'pool': True, 'few_orders': True})
    # an option that makes some fragments rejects (longer than the limit): the serial run still writes both mates, flagged
    for f in bd['fetch_margins']:
        out.append({'b': 250, 'f': f, 'j': 250, 'pool': True, 'opts': ['-max_fragment_size', '30'], 'few_orders': True})
    # a history of calls in one process: restricted to one contig, then the whole file, then another contig
    out.append({'b': 250, 'f': 60, 'j': 750, 'pool': True, 'history': ['c2', None, 'c1', None], 'few_orders': True})
    return out


def shards(tier):
    out = []
    for method in bounds(tier)['methods']:
        for i, cfg in enumerate(configs(tier)):
            out.append((method, i))
    return out


def run_shard(shard, tier, acc):
    method, ci = shard
    cfg = configs(tier)[ci]
    ses = Session(method, tier, extra=(cfg is None), dense=bool(cfg and cfg.get('few_orders')))
    try:
        if ses.serial is None:
            case = {'method': method, 'cfg': None, 'order': None, 'tier': tier}
            acc.case(case, outcome='serial-failed')
            acc.violation(f'{method}:serial:exception:{type(ses.serial_error).__name__}', case, repr(ses.serial_error))
            return
        if cfg is not None and cfg.get('history'):
            for step, contig in enumerate(cfg['history']):
                extra = ['-contig', contig] if contig else []
                case = {'method': method, 'cfg': cfg, 'order': None, 'tier': tier, 'history_step': step}
                viols, njobs = ses.run_parallel(cfg, None, extra_opts=extra)
                viols = [(sg + ':in-a-history-of-calls', d) for sg, d in viols]
                _report(acc, case, viols, njobs, ses.nrec)
            return
        # first run in submission order tells how many jobs there are
        case = {'method': method, 'cfg': cfg, 'order': None, 'tier': tier}
        viols, njobs = ses.run_parallel(cfg, None)
        _report(acc, case, viols, njobs, ses.nrec)
        if njobs and njobs > 1 and (cfg is None or cfg['pool']):
            full, swaps = (4, 2) if tier == 'quick' else (5, 3)
            order_list = sched_orders(njobs, full_upto=full, swaps=swaps)
            if cfg is not None and cfg.get('few_orders'):
                order_list = [tuple(range(njobs)), tuple(reversed(range(njobs)))]
            for o in order_list:
                if list(o) == list(range(njobs)):
                    continue
                case = {'method': method, 'cfg': cfg, 'order': list(o), 'tier': tier}
                viols, nj = ses.run_parallel(cfg, list(o))
                _report(acc, case, viols, nj, ses.nrec)
    finally:
        ses.close()


def _report(acc, case, viols, njobs, nrec):
    cfg = case['cfg']
    lab = 'contig-per-process' if cfg is None else f"b={cfg['b']},f={cfg['f']},pool={cfg['pool']}"
    acc.case(case, transitions=nrec, nontrivial=((njobs or 0) >= 3 and case['order'] is not None),
             outcome=f"{case['method']}:{lab}:jobs={njobs}:viol={len(viols)}")
    for sig, d in viols:
        acc.violation(sig, case, d)


def replay(case):
    ses = Session(case['method'], case.get('tier', 'quick'), extra=(case['cfg'] is None),
                  dense=bool(case['cfg'] and case['cfg'].get('few_orders')))
    try:
        if ses.serial is None:
            return [(f"{case['method']}:serial:exception:{type(ses.serial_error).__name__}", repr(ses.serial_error))]
        cfg = case['cfg']
        if cfg is not None and cfg.get('history'):
            out = []
            for step, contig in enumerate(cfg['history']):
                v, _ = ses.run_parallel(cfg, None, extra_opts=(['-contig', contig] if contig else []))
                if step == case.get('history_step'):
                    out = [(sg + ':in-a-history-of-calls', d) for sg, d in v]
            return out
        return ses.run_parallel(cfg, case['order'])[0]
    finally:
        ses.close()
