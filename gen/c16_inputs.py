"""C16 input alphabets: feature letters, query letters, read letters, GTF / BED renderings of a letter word."""
import itertools

from gen.reads import header, make_read

ALPHABETS = {
    # name -> (strands of the chr1 letters, strands of the two chr2 letters)
    'pm': ('+-', ('+', '-')),          # both strands (the original alphabet; letter order is part of stored cases)
    'pn': (('+', None), (None, '+')),  # '+' and strand-less features (addFeature's default, BED files without a strand column)
}


def letters(C, alpha='pm'):
    strands, (c2a, c2b) = ALPHABETS[alpha]
    out = []
    for s in range(0, C + 1):
        for e in range(s, C + 1):
            for st in strands:
                out.append(('chr1', s, e, st))
    out.append(('chr2', 1, 2, c2a))
    out.append(('chr2', 0, C, c2b))
    return out


_MS = {}


def multisets(C, m, alpha='pm'):
    key = (C, m, alpha)
    if key not in _MS:
        n = len(letters(C, alpha))
        out = []
        for k in range(0, m + 1):
            out.extend(itertools.combinations_with_replacement(range(n), k))
        _MS[key] = out
    return _MS[key]


def feature_name(scheme, k, strand):
    """unique: one name per added feature; shared: one name per strand (= every exon of a gene loaded with the default
    identifierFields=['gene_id'])."""
    if scheme == 'unique':
        return f'f{k}'
    return 'g' + ('.' if strand is None else strand)


OPTIMS = ('nb', 'optim', 'none')      # 'none' = any value that is not one of the three named shortcuts (unoptimised path)

HDR = None


def hdr():
    global HDR
    if HDR is None:
        HDR = header([('chr1', 50), ('chr2', 50), ('chrU', 50)])
    return HDR


_Q = {}


def queries(C, optim_strands=(None,)):
    """-> (points, ranges, reads).
    points: (contig, p, strand, form) with form in pos | kw | optim:<o>
    ranges: (contig, a, b, strand)
    reads:  (pysam read, contig, aligned positions, deleted positions, description)"""
    key = (C, tuple(optim_strands))
    if key in _Q:
        return _Q[key]
    h = hdr()
    pts = []
    for p in range(-1, C + 3):
        for st in (None, '+', '-'):
            pts.append(('chr1', p, st, 'pos'))
        pts.append(('chr1', p, None, 'kw'))
        pts.append(('chr2', p, None, 'pos'))
    pts.append(('chrZ', 1, None, 'pos'))
    for o in OPTIMS:
        for p in range(-1, C + 3):
            for st in optim_strands:
                pts.append(('chr1', p, st, 'optim:' + o))
        pts.append(('chr2', 1, None, 'optim:' + o))
        pts.append(('chrZ', 1, None, 'optim:' + o))
    rngs = []
    for a in range(-1, C + 3):
        for b in range(a, C + 3):
            for st in (None, '+', '-'):
                rngs.append(('chr1', a, b, st))
    for a, b, st in ((0, C, None), (1, 1, '+'), (2, C + 2, None), (-1, 0, '-')):
        rngs.append(('chr2', a, b, st))
    rngs.append(('chrZ', 0, C, None))
    reads = []
    n = 0
    tags = {'SM': 'X_1', 'RX': 'AAA'}
    for a in range(0, C + 2):
        for b in range(a + 1, C + 3):
            r = make_read(h, f'r{n}', 'A' * (b - a), 'chr1', a, f'{b - a}M', paired=False, tags=tags)
            reads.append((r, 'chr1', frozenset(range(a, b)), frozenset(), ('single', a, b)))
            n += 1
    for a, b, c, d in itertools.combinations(range(0, C + 3), 4):
        r = make_read(h, f'r{n}', 'A' * ((b - a) + (d - c)), 'chr1', a, f'{b - a}M{c - b}N{d - c}M', paired=False, tags=tags)
        reads.append((r, 'chr1', frozenset(range(a, b)) | frozenset(range(c, d)), frozenset(), ('spliced', a, b, c, d)))
        n += 1
    # other CIGAR shapes and contigs (one letter each)
    extra = [
        ('softclip', 'chr1', 1, '1S2M1S', 4, {1, 2}, ()),
        ('insertion', 'chr1', 1, '1M1I1M', 3, {1, 2}, ()),
        ('deletion', 'chr1', 0, '1M1D1M', 2, {0, 2}, (1,)),       # whether the deleted base counts as overlapped is left open
        ('othercontig', 'chr2', 1, '2M', 2, {1, 2}, ()),
        ('unknowncontig', 'chrU', 1, '2M', 2, {1, 2}, ()),
        ('unmapped', 'chr1', 1, None, 2, (), ()),                 # unmapped read placed at its mate's position: no aligned base
    ]
    for kind, contig, pos, cigar, qlen, positions, deleted in extra:
        r = make_read(h, f'r{n}', 'A' * qlen, contig, pos, cigar, paired=False, tags=tags, unmapped=cigar is None)
        reads.append((r, contig, frozenset(positions), frozenset(deleted), (kind, contig, pos, cigar)))
        n += 1
    _Q[key] = (pts, rngs, reads)
    return _Q[key]


_MQ = {}


def molecule_reads(C):
    """Read groups for the molecule / fragment level: (list of fragments, each a [R1, R2] pair of read specs), contig,
    aligned positions, deleted positions, strand of the molecule (False forward / True reverse / None unknown), description.
    A read spec is (pos, cigar, query length, reverse, is_read1, paired)."""
    if C in _MQ:
        return _MQ[C]
    out = []
    for rev in (False, True):
        for a in range(0, C + 2):
            for b in range(a + 1, C + 3):
                out.append(([[(a, f'{b - a}M', b - a, rev, True, False), None]], 'chr1', frozenset(range(a, b)), frozenset(), rev,
                            ('single', a, b, 'rev' if rev else 'fwd')))
        for a, b, c, d in itertools.combinations(range(0, C + 3), 4):
            out.append(([[(a, f'{b - a}M{c - b}N{d - c}M', (b - a) + (d - c), rev, True, False), None]], 'chr1',
                        frozenset(range(a, b)) | frozenset(range(c, d)), frozenset(), rev,
                        ('spliced', a, b, c, d, 'rev' if rev else 'fwd')))
        out.append(([[(1, '1S2M1S', 4, rev, True, False), None]], 'chr1', frozenset({1, 2}), frozenset(), rev, ('softclip', 'rev' if rev else 'fwd')))
        out.append(([[(0, '1M1D1M', 2, rev, True, False), None]], 'chr1', frozenset({0, 2}), frozenset({1}), rev, ('deletion', 'rev' if rev else 'fwd')))
    out.append(([[(1, None, 2, False, True, False), None]], 'chr1', frozenset(), frozenset(), None, ('unmapped', 'placed')))   # no strand
    # mate pairs: the molecule has the strand of R1 and covers the bases of both mates
    out.append(([[(0, '2M', 2, False, True, True), (C, '2M', 2, True, False, True)]], 'chr1', frozenset({0, 1, C, C + 1}), frozenset(), False,
                ('pair', 'R1fwd')))
    out.append(([[(C, '2M', 2, True, True, True), (0, '2M', 2, False, False, True)]], 'chr1', frozenset({0, 1, C, C + 1}), frozenset(), True,
                ('pair', 'R1rev')))
    # two fragments in one molecule whose blocks fuse into one
    out.append(([[(0, '2M', 2, False, True, False), None], [(1, '2M', 2, False, True, False), None]], 'chr1', frozenset({0, 1, 2}), frozenset(), False,
                ('twofragments', 'fwd')))
    _MQ[C] = out
    return out


def build_reads(spec_fragments, contig, tag='m'):
    h = hdr()
    frags = []
    n = 0
    for pair in spec_fragments:
        reads = []
        for spec in pair:
            if spec is None:
                reads.append(None)
                continue
            pos, cigar, qlen, rev, is_r1, paired = spec
            mate = None
            if paired:
                other = pair[1] if is_r1 else pair[0]
                mate = (contig, other[0], other[3], False)
            reads.append(make_read(h, f'{tag}{n}', 'A' * qlen, contig, pos, cigar, reverse=rev, read1=is_r1, paired=paired, mate=mate,
                                   tags={'SM': 'X_1', 'RX': 'AAA'}, unmapped=cigar is None))
        n += 1
        frags.append(reads)
    return frags


# --------------------------------------------------------------------------- annotation files
GTF_OPTIONS = [
    # (label, loadGTF keyword arguments, identifier fields used for the expected name or None = name not compared)
    ('default', {}, ('gene_id',)),
    ('store_all+exon_id', {'store_all': True, 'identifierFields': ('exon_id',)}, ('exon_id',)),
    ('select_exon+two_ids', {'select_feature_type': ['exon'], 'identifierFields': ['transcript_id', 'exon_id']}, ('transcript_id', 'exon_id')),
    ('identifierFields_None', {'identifierFields': None, 'store_all': True}, None),
]


def gtf_records(C, word, alpha='pm'):
    """One annotation line per letter: GTF coordinates are 1-based and closed, so letter [s,e] (0-based closed) is s+1..e+1."""
    ls = letters(C, alpha)
    recs = []
    for k, li in enumerate(word):
        contig, s, e, st = ls[li]
        ftype = 'exon' if k % 2 == 0 else 'transcript'
        attrs = {'gene_id': f'g{k % 2}', 'transcript_id': f't{k}', 'exon_id': f'f{k}'}
        recs.append({'contig': contig, 'type': ftype, 'start1': s + 1, 'end1': e + 1, 'strand': st, 'attrs': attrs, 's': s, 'e': e})
    return recs


def gtf_text(recs):
    lines = ['#!genome-build verif']
    for r in recs:
        a = ' '.join(f'{k} "{v}";' for k, v in r['attrs'].items())
        lines.append('\t'.join([r['contig'], 'verif', r['type'], str(r['start1']), str(r['end1']), '.', r['strand'], '.', a]))
    return '\n'.join(lines) + '\n'


def bed_records(C):
    """A fixed small BED file loaded as a SECOND round into a container: 3-, 4-, 6- and 12-column lines (strand-less and stranded),
    a zero-length line, a line with two blocks (one feature per block, both under the line's name).  BED intervals are half open:
    [s, e) covers s..e-1; whether base e belongs to the stored feature is the loader's business and left open by the oracle.
    -> (contig, start, end, name, strand, columns, blocks or None)"""
    return [
        ('chr1', 0, 2, None, None, 3, None),      # name = line number
        ('chr1', 1, C + 1, 'b1', None, 4, None),
        ('chr1', 2, 3, 'b2', '-', 6, None),
        ('chr1', 1, 1, 'b3', '+', 6, None),
        ('chr2', 0, 1, 'b4', '+', 6, None),
        ('chr1', 0, C + 1, 'b5', '+', 12, ((0, 1), (C, 1))),      # blocks [0,1) and [C,C+1)
    ]


def bed_text(recs):
    lines = ['track name=verif']
    for contig, s, e, name, strand, ncol, blocks in recs:
        if ncol == 3:
            lines.append(f'{contig}\t{s}\t{e}')
        elif ncol == 4:
            lines.append(f'{contig}\t{s}\t{e}\t{name}')
        elif ncol == 6:
            lines.append(f'{contig}\t{s}\t{e}\t{name}\t0\t{strand}')
        else:
            sizes = ','.join(str(b[1]) for b in blocks) + ','
            starts = ','.join(str(b[0]) for b in blocks) + ','
            lines.append(f'{contig}\t{s}\t{e}\t{name}\t0\t{strand}\t{s}\t{e}\t0\t{len(blocks)}\t{sizes}\t{starts}')
    return '\n'.join(lines) + '\n'
