"""C01 generator: the read-pair class alphabet of one demultiplexing strategy.

Everything here only *produces inputs* (well-formed FASTQ records).  Nothing in this module says what
the demultiplexer should do with them; that is decided by oracles/c01_accounting.py from the property
text alone.  The layout table is transcribed from the strategies' `description` texts; it only has to
be good enough to make the classes land where they are meant to (measured: the outcome histogram of
the check shows accepted and rejected pairs for every class).

A *letter* is '<read class>[.<header class>]':

 read classes   W whitelisted barcode           M 1-mismatch barcode (unique Hamming-1 neighbour)
                U unknown barcode               T barcode mate truncated inside the barcode
                S barcode mate 2 bases long     E both mates empty
                N 'N' inside the UMI            B 'N' inside the barcode
                W2/W3 second / third whitelist barcode (other cells; long per-cell word only)
                Q<p> W with every quality character = phred p (0..93)
                X1.. strategy specific content classes (poly-T, TSO oligo absent, VASA barcode, ...)
                P barcode mate ends exactly behind the barcode+UMI prefix (the demultiplexed read is empty)
                L W with all bases in lower case
 header classes (none) Illumina 11 fields, known index      .7 Illumina 7 fields
                .0 Illumina 10 fields ("1:N:0::")             .s already demultiplexed "@Is:...;CX:..."
                .d 3-DEC "@Cluster_s_<lane>_<tile>_<n>"       .x Illumina, index not in the index list
                .n Illumina, numeric index                    .r free text "@r<id>" (no known shape)

The pair at position k of a word carries the id 90001+k in the header field every header shape keeps
(cluster X / tile / the free text itself).  Qualities are position coded (phred 0..41) so that a shifted
or swapped quality string cannot go unnoticed.
"""
import itertools
import re

ID0 = 90001
ID_RE = re.compile(r'(?<!\d)9\d{4}(?!\d)')

INSERT1 = 'GATCCGTAGCATCGGATACCTGACGTACTGGCATCA'
INSERT2 = 'CTAGGTCACTGATCGTCAGCTATGCCATAGTCGGAC'
_FORBIDDEN = ('AGACTCTTT', 'TTTTT', 'AAAAA', 'GGGGG', 'AGTCCGACGAT', 'GTTCTACAGT', 'TAATACGACTCACTATAGGG')

# shortName -> (barcode mate, [(umi start, len)...], [(barcode start, len)...], whitelist alias)
LAYOUT = {
    'ILLU': None,
    'CS1C8U4': (0, [(8, 4)], [(0, 8)], 'celseq1'),
    'CS2C8U6': (0, [(0, 6)], [(6, 8)], 'celseq2'),
    'CS2C8U6NH': (0, [(0, 6)], [(6, 8)], 'celseq2'),
    'CS2C8U8S': (1, [(0, 8)], [(8, 8)], 'celseq2'),
    'CS2C8U8NNLA': (0, [(0, 8)], [(8, 8)], 'celseq2_noNla'),
    'CS2C8U6S': (1, [(0, 6)], [(6, 8)], 'celseq2'),
    'NLAIII384C8U3': (0, [(0, 3)], [(3, 8)], 'maya_384NLA'),
    'NLAIII96C8U3': (0, [(0, 3)], [(3, 8)], 'lennart96NLA'),
    'RBSN': (0, [(0, 8)], [(8, 8)], 'nla_bisulfite'),
    'NLAIII384C8U3SE': (0, [(0, 3)], [(3, 8)], 'maya_384NLA'),
    'NLAIII96C8U3SE': (0, [(0, 3)], [(3, 8)], 'lennart96NLA'),
    'scCHIC384C8U3': (0, [(0, 3)], [(3, 8)], 'maya_384NLA'),
    'TCHIC': (0, [(0, 3)], [(3, 8)], 'maya_384NLA'),
    'CHICTV': (0, [(0, 3)], [(3, 8)], 'maya_384NLA'),
    'scCHIC384C8U3l': (0, [(0, 3)], [(3, 8)], 'maya_384NLA'),
    'scCHIC384C8U3se': (0, [(0, 3)], [(3, 8)], 'maya_384NLA'),
    'MSPJIC8U3': (0, [(0, 3)], [(3, 8)], 'maya_mspj1'),
    'SCARC8R2': (1, [], [(0, 8)], 'scartrace'),
    'SCARC8R1': (0, [], [(0, 8)], 'scartrace'),
    'SCARC8R2R4': (1, [], [(0, 8)], 'scartrace'),
    'CHROMC16U12': (0, [(16, 12)], [(0, 16)], '10x_3M-february-2018'),
    'DamID2': (0, [(0, 3)], [(3, 10)], 'DamID2'),
    'DamAndT': (0, [(0, 3)], [(3, 10)], 'DamID2'),
    'DamID2_3u4b3u6b': (0, [(0, 3), (7, 3)], [(3, 4), (10, 4)], 'DamID2_scattered_8bp'),
    'DamID2andT_3u4b3u4b': (0, [(0, 3), (7, 3)], [(3, 4), (10, 4)], 'DamID2_scattered_8bp'),
    'DamID2andT_3u4b3u6b': (0, [(0, 3), (7, 3)], [(3, 4), (10, 4)], 'CS2_scattered_8bp'),
    'DamID2_8bp_noCA': (0, [(0, 3)], [(3, 8)], 'DamID2_8bp'),
}

HEADER_CLASSES = ('', '.7', '.0', '.s', '.d', '.x', '.n', '.r')
KNOWN_INDEX = 'GTGAAA'          # entry 19 of illumina_merged_ThruPlex48S_RP
UNKNOWN_INDEX_CANDIDATES = ('GGGGGG', 'CCCCCC', 'GGGCCC', 'CCCGGG')


class GeneratorError(Exception):
    pass


def _check_inserts():
    for ins in (INSERT1, INSERT2):
        for r in range(len(ins)):
            rot = ins[r:] + ins[:r]
            for f in _FORBIDDEN:
                if f in rot:
                    raise GeneratorError(f'insert rotation contains special motif {f}')


_check_inserts()


def rot(s, k):
    k %= len(s)
    return s[k:] + s[:k]


def qual_for(mate, length, k):
    return ''.join(chr(33 + (5 * p + 11 * mate + 3 * k) % 42) for p in range(length))


def header(hclass, k, mate, unknown_index):
    i = ID0 + k
    if hclass == '':
        return f'@NS500414:628:H7YVNBGXC:1:11101:{i}:1046 {mate}:N:0:{KNOWN_INDEX}'
    if hclass == '.7':
        return f'@NS500414:628:H7YVNBGXC:1:11101:{i}:1046'
    if hclass == '.0':
        return f'@NS500414:628:H7YVNBGXC:1:11101:{i}:1046 {mate}:N:0::'
    if hclass == '.s':
        return (f'@Is:@NS500414;RN:628;Fc:H7YVNBGXC;La:1;Ti:11101;CX:{i};CY:1046;Fi:N;CN:0;'
                f'aa:{KNOWN_INDEX};aA:{KNOWN_INDEX};aI:19;LY:L0')
    if hclass == '.d':
        return f'@Cluster_s_1_{i}_{mate}'
    if hclass == '.x':
        return f'@NS500414:628:H7YVNBGXC:1:11101:{i}:1046 {mate}:N:0:{unknown_index}'
    if hclass == '.n':
        return f'@NS500414:628:H7YVNBGXC:1:11101:{i}:1046 {mate}:N:0:1'
    if hclass == '.r':
        return f'@r{i}/{mate} some free text'
    raise GeneratorError(f'unknown header class {hclass}')


def split_letter(letter):
    if '.' in letter:
        rc, h = letter.split('.', 1)
        return rc, '.' + h
    return letter, ''


def letter_kind(letter):
    """coarse class used in signatures: Q for the phred letters, free-text for the header without a known
    shape, else std"""
    rc, h = split_letter(letter)
    if rc.startswith('Q'):
        return 'phred-sweep'
    if h == '.r':
        return 'free-text-header'
    return 'std'


class Alphabet:
    """letters and reads of one strategy; barcodes are picked from the whitelist shipped in the tree under test"""

    def __init__(self, short, bp0, bp1, index_parser, index_alias):
        if short not in LAYOUT:
            raise GeneratorError(f'no layout row for strategy {short}')
        self.short = short
        self.layout = LAYOUT[short]
        self.bp0, self.bp1 = bp0, bp1
        self.unknown_index = None
        known = index_parser.barcodes.get(index_alias, {})
        ext = index_parser.extendedBarcodes.get(index_alias, {})
        for c in UNKNOWN_INDEX_CANDIDATES:
            if c not in known and c not in ext:
                self.unknown_index = c
                break
        if self.unknown_index is None:
            raise GeneratorError('no unknown sequencing index candidate left')
        if KNOWN_INDEX not in known:
            raise GeneratorError(f'{KNOWN_INDEX} is not a known sequencing index any more')
        self.bc = {}
        self.extra = {}
        if self.layout is not None:
            self._pick(self.layout[3], sum(l for _, l in self.layout[2]))
            self._extras()
        self.letters = self._letters()

    # ---- barcode choice
    def _pick(self, alias, length):
        wl = list(self.bp0.barcodes.get(alias, {}))
        wl = [b for b in wl if len(b) == length]
        ext = self.bp1.extendedBarcodes.get(alias, {})
        wls = set(self.bp0.barcodes.get(alias, {}))
        if not wl:
            # emptied whitelist (10x in this snapshot): any barcode is unknown
            self.bc['W'] = ('ACGT' * 8)[:length]
            return
        self.bc['W'] = wl[0]
        if len(wl) > 2:
            self.bc['W2'], self.bc['W3'] = wl[1], wl[2]
        w = wl[0]
        for pos in range(length):
            for b in 'ACGT':
                c = w[:pos] + b + w[pos + 1:]
                if c != w and c not in wls and c in ext and ext[c][1] == w and 'M' not in self.bc:
                    self.bc['M'] = c
        for t in itertools.product('GCTA', repeat=length):
            c = ''.join(t)
            if c not in wls and c not in ext:
                self.bc['U'] = c
                break
        b = w[:2] + 'N' + w[3:]
        self.bc['B'] = b

    def _index_to_barcode(self, alias, idx):
        for b, i in self.bp0.barcodes.get(alias, {}).items():
            if i == idx:
                return b
        return None

    def _extras(self):
        s = self.short
        bp = self.bp0
        if s == 'TCHIC':
            self.extra['X1'] = 'polyT'
            bi = bp.barcodes['maya_384NLA'].get(self.bc['W'])
            c2 = self._index_to_barcode('celseq2', bi)
            if c2 is not None:
                self.extra['X2'] = ('vasa', c2)
            self.extra['X3'] = 'T7'
        elif s == 'CHICTV':
            self.extra['X1'] = 'no-oligo'
        elif s == 'DamAndT':
            c2 = list(bp.barcodes.get('celseq2', {}))
            if c2:
                self.extra['X1'] = ('celseq2', c2[0])
            dam = list(bp.barcodes.get('DamID2', {}))
            for d in dam:
                hit = [c for c in c2 if c[:7] == d[3:10]]
                if hit:
                    self.extra['X2'] = ('both', d, hit[0])
                    break
        elif s == 'DamID2andT_3u4b3u4b':
            dam = bp.barcodes.get('DamID2_scattered_8bp', {})
            cs = bp.barcodes.get('CS2_scattered_8bp', {})
            only_tx = [c for c in cs if c not in dam]
            both = [c for c in cs if c in dam]
            if only_tx:
                self.extra['X1'] = ('scattered', only_tx[0])
            if both:
                self.extra['X2'] = ('scattered', both[0])
        elif s == 'DamID2andT_3u4b3u6b':
            dam = bp.barcodes.get('DamID2_scattered_8bp', {})
            cs = bp.barcodes.get('CS2_scattered_8bp', {})
            only_dam = [c for c in dam if c not in cs]
            if only_dam:
                self.extra['X1'] = ('scattered', only_dam[0])

    def _letters(self):
        if self.layout is None:
            base = ['W', 'S', 'E']
        else:
            base = ['W']
            if 'M' in self.bc:
                base.append('M')
            if 'U' in self.bc:
                base.append('U')
            base += ['T', 'S', 'E', 'N']
            if 'B' in self.bc:
                base.append('B')
            base += ['P', 'L']
            base += sorted(self.extra)
        self.base_letters = list(base)
        out = list(base)
        for h in HEADER_CLASSES[1:5]:
            out.append('W' + h)
            if 'U' in base:
                out.append('U' + h)
        for h in HEADER_CLASSES[5:]:
            out.append('W' + h)
        return out

    # ---- reads
    def _prefix(self, barcode, k, n_in_umi=False):
        mate, umis, bcs, _ = self.layout
        plen = max([s + l for s, l in umis + bcs])
        arr = list(rot('ACGTCAGT', k) * 6)[:plen]
        umi_src = rot('CATGACTGATCG', k)
        u = 0
        for s, l in umis:
            for j in range(l):
                arr[s + j] = umi_src[u % len(umi_src)]
                u += 1
        if n_in_umi and umis:
            arr[umis[0][0] + 1] = 'N'
        o = 0
        for s, l in bcs:
            arr[s:s + l] = list(barcode[o:o + l])
            o += l
        return ''.join(arr)

    def pair(self, letter, k):
        """-> ((header1, seq1, qual1), (header2, seq2, qual2)) for position k of a word"""
        rc, h = split_letter(letter)
        ins1, ins2 = rot(INSERT1, k), rot(INSERT2, k)
        phred = None
        if rc.startswith('Q'):
            phred = int(rc[1:])
            if not 0 <= phred <= 93:
                raise GeneratorError(f'phred out of the Sanger range: {phred}')
            rc = 'W'
        if self.layout is None:
            s1, s2 = 'TA' + ins1, ins2
            if rc == 'S':
                s1 = s1[:2]
            elif rc == 'E':
                s1, s2 = '', ''
        else:
            mate = self.layout[0]
            mid = 'TA'
            tail = ''
            r2 = ins2
            if rc in ('W', 'W2', 'W3', 'M', 'U', 'B'):
                pre = self._prefix(self.bc[rc], k)
            elif rc in ('T', 'S', 'E', 'P', 'L'):
                pre = self._prefix(self.bc['W'], k)
            elif rc == 'N':
                pre = self._prefix(self.bc['W'], k, n_in_umi=True)
                if not self.layout[1]:
                    mid = 'TN'
            elif rc in self.extra:
                ex = self.extra[rc]
                pre = self._prefix(self.bc['W'], k)
                if ex == 'polyT':
                    mid = 'T' + 'T' * 25
                elif ex == 'T7':
                    mid = 'TGC' + 'AGTCCGACGAT'
                elif ex == 'no-oligo':
                    pass
                elif ex[0] == 'vasa':
                    mid = 'TGCAGTCGA' + ex[1] + 'TTTTTTTTTT'
                    r2 = ins2[:14] + 'A' * 12 + 'GG'
                elif ex[0] == 'celseq2':
                    pre = rot('CATGAC', k) + ex[1]
                    mid = 'TTTTTTTT'
                elif ex[0] == 'both':
                    pre = rot('CAT', k) + ex[1] + ex[2][7:]
                    mid = 'TTTTCA'
                elif ex[0] == 'scattered':
                    pre = self._prefix(ex[1], k)
                else:
                    raise GeneratorError(f'unknown extra {ex}')
            else:
                raise GeneratorError(f'unknown read class {rc} for {self.short}')
            if self.short == 'CHICTV' and rc not in self.extra:
                mid = 'T' + 'CAGTGCAT' + 'AGACTCTTT'
            bm = pre + mid + (ins1 if mate == 0 else ins2)
            if rc == 'T':
                s, l = self.layout[2][-1]
                bm = bm[:s + l // 2]
            elif rc == 'S':
                bm = bm[:2]
            elif rc == 'P':
                bm = bm[:len(pre)]
            if mate == 0:
                s1, s2 = bm, r2
            else:
                s1, s2 = ins1, bm
            if rc == 'E':
                s1, s2 = '', ''
            elif rc == 'L':
                s1, s2 = s1.lower(), s2.lower()
        if phred is None:
            q1, q2 = qual_for(0, len(s1), k), qual_for(1, len(s2), k)
        else:
            q1, q2 = chr(33 + phred) * len(s1), chr(33 + phred) * len(s2)
        return ((header(h, k, 1, self.unknown_index), s1, q1),
                (header(h, k, 2, self.unknown_index), s2, q2))


def fastq_text(records, plus_header=False, final_newline=True):
    """FASTQ text of the records.  plus_header: the third line repeats the read name ('+name', legal FASTQ);
    final_newline=False: the last record is not newline terminated (legal, what many writers leave)"""
    t = ''.join(f'{h}\n{s}\n+{h[1:] if plus_header else ""}\n{q}\n' for h, s, q in records)
    if not final_newline and t.endswith('\n'):
        t = t[:-1]
    return t
