"""Deterministic, in-process stand-in for ``multiprocessing.Pool`` whose completion order is chosen
by the explorer (the *schedule* dimension of C12, parallel tagging, ...).

The code under test is left untouched: the harness replaces the module attribute the code looks
``Pool`` up through (``mod.Pool`` and/or ``mod.multiprocessing``) with objects made here:

    sch = Schedule(order=(2, 0, 1))                 # completion order of the jobs of every map call
    with patched(B, sch):                           # B = module under test; restores on exit
        result = B.obtain_counts(...)
    sch.log  -> [{'call': 0, 'method': 'imap_unordered', 'n': 3, 'processes': 4, 'order': [2, 0, 1]}]

Semantics (one logical "worker pool", everything runs in the calling thread):

* the task iterable is consumed completely when the map call is made (the real Pool's task-handler
  thread does the same, independent of the consumer);
* job bodies are executed in the chosen *completion order*, lazily: a body runs when the consumer
  asks for the next result (``imap_unordered``) or, for the ordered calls (``imap``), as many bodies
  of the completion order as are needed until the result wanted next exists.  This is exactly the
  set of interleavings "jobs finish in this order; the consumer handles a result as soon as it may";
* arguments and results cross a pickle round trip (``isolate=True``) like they cross the process
  boundary of a real pool, so results never alias objects of the job body or of another job;
* an exception of a job body is re-raised in the consumer at the point where the real Pool delivers it
  (when that result is fetched);
* ``close/terminate/__exit__``: bodies not yet run are dropped (``pending='drop'``, what ``terminate``
  does to queued work) or run in completion order (``pending='run'``, what ``close`` + ``join`` gives).

``order`` may be: None (submission order), a permutation of range(n), a dict {call_index: permutation},
or a callable ``(n, call_index) -> permutation``.  A permutation whose length differs from the number
of jobs of the call is a harness error (the explorer must learn n from a first run: ``Schedule.log``).

Enumeration helpers: ``all_orders(n)``, ``near_orders(n, swaps)``, ``orders(n, full_upto, swaps)``.
"""
import contextlib
import itertools
import pickle

from .bind import HarnessError


# ----------------------------------------------------------------------------------------------
# order enumeration
# ----------------------------------------------------------------------------------------------

def all_orders(n):
    """every completion order of n jobs, identity first (lexicographic)"""
    return list(itertools.permutations(range(n)))


def near_orders(n, swaps=2):
    """identity, every order reachable from it by <= `swaps` adjacent transpositions (breadth first,
    so simplest first), and the complete reversal; duplicates removed, deterministic"""
    ident = tuple(range(n))
    seen = {ident}
    out = [ident]
    frontier = [ident]
    for _ in range(swaps):
        nxt = []
        for p in frontier:
            for i in range(n - 1):
                q = list(p)
                q[i], q[i + 1] = q[i + 1], q[i]
                q = tuple(q)
                if q not in seen:
                    seen.add(q)
                    out.append(q)
                    nxt.append(q)
        frontier = nxt
    rev = tuple(reversed(ident))
    if rev not in seen:
        out.append(rev)
    return out


def orders(n, full_upto=5, swaps=2):
    """all n! orders for n <= full_upto, else the near_orders neighbourhood"""
    if n <= full_upto:
        return all_orders(n)
    return near_orders(n, swaps)


# ----------------------------------------------------------------------------------------------
# the pool
# ----------------------------------------------------------------------------------------------

class _Raised:
    __slots__ = ('exc',)

    def __init__(self, exc):
        self.exc = exc


class _Call:
    """One map-like call: n tasks, a completion order, lazily executed bodies."""

    def __init__(self, pool, method, func, tasks, star=False):
        self.pool = pool
        self.func = func
        self.star = star
        self.tasks = tasks
        self.n = len(tasks)
        sch = pool.schedule
        self.index = sch._next_call()
        self.order = sch._order_for(self.n, self.index)
        self.done = {}            # task index -> result | _Raised
        self.cursor = 0           # how many entries of self.order have been executed
        sch.log.append({'call': self.index, 'method': method, 'n': self.n,
                        'processes': pool.processes, 'order': list(self.order)})
        pool._calls.append(self)

    def _run_one(self):
        i = self.order[self.cursor]
        self.cursor += 1
        sch = self.pool.schedule
        arg = self.tasks[i]
        try:
            if sch.isolate:
                arg = pickle.loads(pickle.dumps(arg))
            res = self.func(*arg) if self.star else self.func(arg)
            if sch.isolate:
                res = pickle.loads(pickle.dumps(res))
        except Exception as e:                       # delivered to the consumer, like the real Pool
            res = _Raised(e)
        sch.executed += 1
        self.done[i] = res
        return i

    def pending(self):
        return self.cursor < self.n

    def run_all(self):
        while self.pending():
            self._run_one()

    def result_of(self, i):
        """result of task i, executing bodies in completion order until it exists"""
        while i not in self.done:
            if not self.pending():
                raise HarnessError(f'ScheduledPool: task {i} was never scheduled')
            self._run_one()
        r = self.done[i]
        if isinstance(r, _Raised):
            raise r.exc
        return r



class _Iter:
    """IMapIterator look-alike: like the real one it stays usable after delivering a job's exception"""

    def __init__(self, call, ordered):
        self._call = call
        self._ordered = ordered
        self._i = 0

    def __iter__(self):
        return self

    def __next__(self, timeout=None):
        call = self._call
        if self._i >= call.n:
            raise StopIteration
        i = self._i if self._ordered else call.order[self._i]
        self._i += 1
        return call.result_of(i)

    next = __next__


class _Async:
    """AsyncResult look-alike for apply_async / map_async / starmap_async"""

    def __init__(self, call, single, callback=None, error_callback=None):
        self._call = call
        self._single = single
        self._cb = callback
        self._ecb = error_callback
        self._fired = False

    def _value(self):
        if self._single:
            return self._call.result_of(0)
        return [self._call.result_of(i) for i in range(self._call.n)]

    def get(self, timeout=None):
        try:
            v = self._value()
        except HarnessError:
            raise
        except Exception as e:
            if not self._fired and self._ecb is not None:
                self._fired = True
                self._ecb(e)
            raise
        if not self._fired and self._cb is not None:
            self._fired = True
            self._cb(v)
        return v

    def wait(self, timeout=None):
        try:
            self.get()
        except HarnessError:
            raise
        except Exception:
            pass

    def ready(self):
        return not self._call.pending()

    def successful(self):
        if self._call.pending():
            raise ValueError('not ready')
        return not any(isinstance(r, _Raised) for r in self._call.done.values())


class ScheduledPool:
    """Drop-in for multiprocessing.Pool (context manager, imap, imap_unordered, map, starmap,
    apply, *_async, close, join, terminate).  Create through ``Schedule.Pool``."""

    def __init__(self, schedule, processes=None, initializer=None, initargs=(), maxtasksperchild=None,
                 context=None):
        self.schedule = schedule
        self.processes = processes
        self._calls = []
        self._state = 'RUN'
        schedule.pools.append({'processes': processes, 'maxtasksperchild': maxtasksperchild})
        if initializer is not None:
            initializer(*initargs)

    # -- plumbing
    def _check(self):
        if self._state != 'RUN':
            raise ValueError('Pool not running')

    def _call(self, method, func, iterable, star=False):
        self._check()
        return _Call(self, method, func, list(iterable), star=star)

    # -- the Pool API
    def imap_unordered(self, func, iterable, chunksize=1):
        return _Iter(self._call('imap_unordered', func, iterable), ordered=False)

    def imap(self, func, iterable, chunksize=1):
        return _Iter(self._call('imap', func, iterable), ordered=True)

    def map(self, func, iterable, chunksize=None):
        call = self._call('map', func, iterable)
        call.run_all()
        return [call.result_of(i) for i in range(call.n)]

    def starmap(self, func, iterable, chunksize=None):
        call = self._call('starmap', func, iterable, star=True)
        call.run_all()
        return [call.result_of(i) for i in range(call.n)]

    def apply(self, func, args=(), kwds=None):
        return self.apply_async(func, args, kwds).get()

    def apply_async(self, func, args=(), kwds=None, callback=None, error_callback=None):
        kwds = kwds or {}
        call = self._call('apply_async', _Apply(func), [(tuple(args), dict(kwds))])
        return _Async(call, True, callback, error_callback)

    def map_async(self, func, iterable, chunksize=None, callback=None, error_callback=None):
        return _Async(self._call('map_async', func, iterable), False, callback, error_callback)

    def starmap_async(self, func, iterable, chunksize=None, callback=None, error_callback=None):
        return _Async(self._call('starmap_async', func, iterable, star=True), False, callback, error_callback)

    def _settle(self, how):
        for call in self._calls:
            if how == 'run':
                call.run_all()
            else:
                self.schedule.dropped += call.n - call.cursor
                call.cursor = call.n

    def close(self):
        if self._state == 'RUN':
            self._state = 'CLOSE'

    def join(self):
        if self._state == 'RUN':
            raise ValueError('Pool is still running')
        if self._state == 'CLOSE':
            self._settle('run')          # close + join waits for all outstanding work

    def terminate(self):
        if self._state != 'TERMINATE':
            self._settle('run' if (self.schedule.pending == 'run') else 'drop')
            self._state = 'TERMINATE'

    def __enter__(self):
        self._check()
        return self

    def __exit__(self, et, ev, tb):
        self.terminate()
        return False


class _Apply:
    """picklable adapter func((args, kwds)) -> func(*args, **kwds)"""

    def __init__(self, func):
        self.func = func

    def __call__(self, packed):
        args, kwds = packed
        return self.func(*args, **kwds)


class Schedule:
    """Owns the completion order(s) of one run of the code under test and records what happened."""

    def __init__(self, order=None, isolate=True, pending='drop'):
        self.order = order
        self.isolate = isolate
        self.pending = pending
        self.log = []          # one record per map-like call
        self.pools = []        # one record per Pool(...) construction
        self.executed = 0      # job bodies run
        self.dropped = 0       # job bodies never run (terminated before completion)
        self._calls = 0

    def _next_call(self):
        i = self._calls
        self._calls += 1
        return i

    def _order_for(self, n, call_index):
        o = self.order
        if callable(o):
            o = o(n, call_index)
        elif isinstance(o, dict):
            o = o.get(call_index)
        if o is None:
            return tuple(range(n))
        o = tuple(o)
        if sorted(o) != list(range(n)):
            raise HarnessError(f'ScheduledPool: order {o!r} is not a permutation of the {n} jobs of call {call_index}')
        return o

    def Pool(self, processes=None, initializer=None, initargs=(), maxtasksperchild=None, context=None):
        return ScheduledPool(self, processes, initializer, initargs, maxtasksperchild, context)


class MultiprocessingShim:
    """Stands in for the ``multiprocessing`` *module attribute* of a module under test: ``Pool`` (also
    through ``get_context``) comes from the schedule, everything else from the real module.  The real
    multiprocessing module is never modified (the engine's own workers depend on it)."""

    def __init__(self, real, schedule):
        self.__dict__['_real'] = real
        self.__dict__['_schedule'] = schedule

    def Pool(self, *a, **k):
        return self._schedule.Pool(*a, **k)

    def get_context(self, method=None):
        return MultiprocessingShim(self._real.get_context(method), self._schedule)

    def __getattr__(self, name):
        return getattr(self._real, name)


@contextlib.contextmanager
def patched(module, schedule, names=('Pool', 'multiprocessing'), require=None):
    """Replace the Pool seams of `module` for the duration of the block.

    names:   the module attributes through which the code under test reaches Pool; attributes that do
             not exist are skipped unless listed in `require` (default: all must exist).
    """
    import multiprocessing as real_mp
    import multiprocessing.pool as real_pool
    require = names if require is None else require
    saved = {}
    for name in names:
        if not hasattr(module, name):
            if name in require:
                raise HarnessError(f'seam-missing {module.__name__}.{name}')
            continue
        cur = getattr(module, name)
        if name == 'multiprocessing':
            if cur is not real_mp and not isinstance(cur, MultiprocessingShim):
                raise HarnessError(f'seam-missing {module.__name__}.multiprocessing is not the multiprocessing module')
            new = MultiprocessingShim(real_mp, schedule)
        else:
            ok = (cur is real_mp.Pool or cur is real_pool.Pool or getattr(cur, '__name__', '') == 'Pool'
                  or getattr(cur, '__func__', None) is Schedule.Pool)
            if not ok:
                raise HarnessError(f'seam-missing {module.__name__}.{name} is not multiprocessing.Pool')
            new = schedule.Pool
        saved[name] = cur
        setattr(module, name, new)
    try:
        yield schedule
    finally:
        for name, cur in saved.items():
            setattr(module, name, cur)
