"""C07 helpers: fragment letters with read-level variants (invalid / low mapping quality / unmapped mate), the input
forms MoleculeIterator documents (lists, tuples, 1-tuples, bare segments), and coordinate-sorted indexed BAM files."""
import os

import pysam

from gen.frags import nla_reads, chic_reads, HDR, delivery_coordinate
from gen.reads import make_read

SHORT, LONG = 20, 48
SITES = {0: ('chr1', 1000), 1: ('chr1', 1010), 2: ('chr1', 1060), 3: ('chr1', 1200), 4: ('chr2', 500), 5: ('chr2', 700),
         6: ('chr2', 1000)}      # the coordinate of site 0 on the other contig

# option letters: (site, length, cell, umi, variant)
#   ok           ordinary fragment
#   qcfail       read flagged QC-fail: the fragment is invalid for every fragment class
#   mq5 / mq10   mapping quality 5 / 10 (threshold used: 10; "lower than" drops 5 and keeps 10)
#   mateunmapped R1 mapped at the site, R2 unmapped and placed at R1's position (how aligners write it)
OPT_LETTERS = [
    (0, SHORT, 1, 'AAA', 'ok'), (0, LONG, 1, 'AAA', 'ok'), (0, SHORT, 2, 'AAA', 'ok'),
    (0, SHORT, 1, 'AAA', 'qcfail'), (0, SHORT, 1, 'AAA', 'mq5'), (0, LONG, 1, 'AAA', 'mateunmapped'),
    (3, SHORT, 1, 'AAA', 'ok'), (3, SHORT, 1, 'AAA', 'mq10'), (4, SHORT, 1, 'AAA', 'ok'),
    (3, SHORT, 1, 'AAA', 'qcfail'), (4, SHORT, 1, 'AAA', 'mq5'), (5, SHORT, 1, 'AAA', 'ok'),
    (6, SHORT, 1, 'AAA', 'ok'),
]
MIN_MQ = 10


def opt_reads(name, letter, cls):
    site, length, cell, umi, variant = letter
    contig, pos = SITES[site]
    fn = chic_reads if cls.startswith('chic') else nla_reads
    kw = {}
    if variant == 'mq5':
        kw['mapq'] = 5
    if variant == 'mq10':
        kw['mapq'] = 10
    r1, r2 = fn(name, contig, pos, length, cell, umi, **kw)
    if variant == 'qcfail':
        for r in (r1, r2):
            if r is not None:
                r.flag |= 0x200
    if variant == 'mateunmapped':
        tags = dict(r1.get_tags())
        a = make_read(HDR, name, r1.query_sequence, contig, r1.reference_start, r1.cigarstring, reverse=False, read1=True,
                      paired=True, mate=(contig, r1.reference_start, False, True), tags=tags)
        b = make_read(HDR, name, r2.query_sequence, contig, r1.reference_start, None, reverse=False, read1=False,
                      paired=True, mate=(contig, r1.reference_start, False, False), tags=tags, unmapped=True)
        return [a, b]
    return [r1, r2]


_DELIV = {}


def opt_delivery(li):
    if li not in _DELIV:
        r = opt_reads('x', OPT_LETTERS[li], 'nla')
        _DELIV[li] = (SITES[OPT_LETTERS[li][0]][0], delivery_coordinate(r))      # (contig, coordinate)
    return _DELIV[li]


def n_reads(letter):
    return 1 if letter[1] <= SHORT else 2


def as_form(frags, form):
    """the shapes of input item the iterator's docstring / code accept"""
    if form == 'list':
        return [list(f) for f in frags]
    if form == 'tuple':
        return [tuple(f) for f in frags]
    if form == 'single':      # 1-tuples; only for single-end fragments
        return [(f[0],) for f in frags]
    if form == 'bare':        # bare pysam.AlignedSegment (the docstring example); only for single-end fragments
        return [f[0] for f in frags]
    raise ValueError(form)


def write_sorted_bam(path, frags):
    """all reads of the fragments, stably sorted by (contig, reference_start) like `samtools sort`, indexed"""
    recs = []
    for k, f in enumerate(frags):
        for r in f:
            if r is not None:
                recs.append((r.reference_id, r.reference_start, k, 0 if r.is_read1 or not r.is_paired else 1, r))
    recs.sort(key=lambda t: t[:4])
    with pysam.AlignmentFile(path, 'wb', header=HDR) as out:
        for t in recs:
            out.write(t[4])
    pysam.index(path)
    return path


def remove_bam(path):
    for p in (path, path + '.bai'):
        try:
            os.unlink(p)
        except OSError:
            pass
