"""C05 - tagging conserves alignment records.

(a) job construction: the real tag_multiome_multi_processing(one_contig_per_process=True) with the contig
    listing answered by the explorer and task generation replaced by a probe: EVERY contig layout (word over
    small/large contigs with reads, with/without the unmapped bin) up to the bound.
(b) end to end: the real command line entry point on real BAMs - every layout of <=3/4 contigs (small/large,
    with/without reads, any header order), with/without unmapped pairs, read classes proper / duplicate /
    reverse / no-motif / half-mapped / mates on different contigs / orphan; methods nla, chic, qflag;
    --no_rejects on/off; single process vs --multiprocess under a scheduler-owned Pool with EVERY completion
    order of the jobs.
Oracle: multiset equality of records, sortedness, index, read groups, --no_rejects removes exactly the invalid.
"""
import itertools
import os
import shutil
import tempfile

import pysam

from gen.bam import Builder, records, is_coordinate_sorted
from mc import tagger
from mc.sched import all_orders

ID = 'C05'
RULE = ('(a) all contig layouts (words over small 5 kb / small 60 kb / large contigs with reads, length 0..n, with/without the unmapped bin) through the '
        'real job builder; (b) all BAM layouts x method x --no_rejects x single/--multiprocess x every completion order of the '
        'pool jobs; non-trivial = multiprocess run with >=3 jobs and an order other than submission order; '
        'states = runs of the tagger / job-builder, transitions = records compared')
ASSUMPTIONS = [
    'no secondary/supplementary alignments in the input (outside the claim)',
    'the only channel by which a worker schedule reaches the output is the order in which job results are delivered (ScheduledPool); '
    'one free-running real-Pool run per tier guards this',
    'samtools is absent: pysam.merge / pysam.sort code paths are the ones executed',
    'reads are pre-tagged (SM, RX, BC ...), as in the repository test BAMs; name decoding is C04',
    'one 10 500-fragment input (more than the default ejection interval) per mode drives the buffer-ejection branch inside the tagger',
]
SMALL, MEDIUM, LARGE = 5000, 60000, 120000   # MEDIUM is still below the 100 kb small-contig threshold
LEN = {'S': SMALL, 'M': MEDIUM, 'L': LARGE, 'U': SMALL, 'V': LARGE}   # U / V: contig holding only a placed unmapped read


def bounds(tier):
    if tier == 'quick':
        return {'job_builder_max_contigs': 6, 'bam_max_contigs': 3, 'contig_kinds': ['S+', 'M+', 'L+', 'S0', 'U+'], 'unmapped_pairs': [0, 1],
                'methods': ['nla', 'chic', 'qflag'], 'orders': 'all (<=24) for nla default; identity+reverse otherwise'}
    return {'job_builder_max_contigs': 8, 'bam_max_contigs': 4, 'contig_kinds': ['S+', 'M+', 'L+', 'S0', 'L0', 'U+', 'V+'], 'unmapped_pairs': [0, 1],
            'methods': ['nla', 'chic', 'qflag'], 'orders': 'all (<=120) for nla default; identity+reverse otherwise'}


# ------------------------------------------------------------------ (a) job builder
class _Probe(Exception):
    def __init__(self, job_gen):
        self.job_gen = job_gen


def probe_jobs(layout, unmapped):
    """layout: string over 'S','L' -> list of jobs (each a list of contig names) the real code builds"""
    tm = tagger.tagger_module()
    contigs = [(f'c{i}', LEN[k]) for i, k in enumerate(layout)]
    listing = list(contigs) + ([('*', 0)] if unmapped else [])

    def fake_contigs(path, with_length=False):
        for c, l in listing:
            yield (c, l) if with_length else c

    def fake_tasks(input_bam_path=None, job_gen=None, **k):
        raise _Probe([list(j) for j in job_gen])
    root = tempfile.mkdtemp(prefix='c05a_', dir='/dev/shm')
    saved = (tm.get_contigs_with_reads, tm.generate_tasks)
    tm.get_contigs_with_reads = fake_contigs
    tm.generate_tasks = fake_tasks
    try:
        try:
            with tagger.silenced():
                tm.tag_multiome_multi_processing(input_bam_path='in.bam', out_bam_path='out.bam', molecule_iterator=None,
                                                 molecule_iterator_args={}, fragment_size=1000, bp_per_job=10_000_000,
                                                 bp_per_segment=1_000_000, temp_folder_root=root, one_contig_per_process=True,
                                                 additional_args={})
        except _Probe as p:
            return [[t[0] for t in job] for job in p.job_gen], contigs
        except Exception as ex:
            return ex, contigs
        return RuntimeError('probe not reached'), contigs
    finally:
        tm.get_contigs_with_reads, tm.generate_tasks = saved
        shutil.rmtree(root, ignore_errors=True)


def check_jobs(layout, unmapped):
    jobs, contigs = probe_jobs(layout, unmapped)
    if isinstance(jobs, Exception):
        return [(f'jobs:exception:{type(jobs).__name__}', repr(jobs))], 0
    flat = [c for j in jobs for c in j]
    out = []
    for c, l in contigs:
        n = flat.count(c)
        kind = 'small' if l < 100000 else 'large'
        if n == 0:
            out.append((f'jobs:{kind}-contig-with-reads-in-no-job', {'contig': c, 'jobs': jobs}))
        elif n > 1:
            out.append((f'jobs:{kind}-contig-in-several-jobs', {'contig': c, 'jobs': jobs}))
    n = flat.count('*')
    if n > 1:
        out.append(('jobs:unmapped-bin-in-several-jobs', {'jobs': jobs}))
    if unmapped and n == 0:
        out.append(('jobs:unmapped-bin-in-no-job', {'jobs': jobs}))
    extra = set(flat) - {c for c, _ in contigs} - {'*'}
    if extra:
        out.append(('jobs:unknown-contig-in-jobs', {'jobs': jobs}))
    seen = set()
    return [(s, d) for s, d in out if not (s in seen or seen.add(s))], len(jobs)


# ------------------------------------------------------------------ (b) end to end
def build_bam(path, layout, n_unmapped):
    """layout: tuple of kinds 'S+','L+','S0','L0'. Returns truth: {name: class}"""
    contigs = [(f'c{i}{k[0]}', LEN[k[0]]) for i, k in enumerate(layout)]
    b = Builder(contigs)
    truth = {}
    with_reads = [c for (c, l), k in zip(contigs, layout) if k.endswith('+') and k[0] not in 'UV']
    for ci, c in enumerate(with_reads):
        base = 1000 + 100 * ci
        # two copies of one molecule with different R2 ends; the copy that completes LATER in coordinate order (the longer
        # one) was sequenced on another lane: its read group occurs only on a non-first fragment of a molecule
        truth[b.pair(c, base, cell=1, umi='AAA', extra_tags={'La': '2'})] = 'valid'
        truth[b.pair(c, base, cell=1, umi='AAA', frag=45)] = 'valid'
        truth[b.pair(c, base + 400, cell=2, umi='ACG', reverse=True)] = 'valid'
        truth[b.pair(c, base + 800, cell=1, umi='CCC', motif='CTTG')] = 'nomotif'
        truth[b.pair(c, base + 1200, cell=1, umi='GGA', r2_unmapped=True)] = 'halfmapped'
    for (c, l), k in zip(contigs, layout):
        if k[0] in 'UV':
            truth[b.placed_unmapped_orphan(c, 700, cell=2, umi='GCA')] = 'unmapped'
    if len(with_reads) >= 2:
        truth[b.pair(with_reads[0], 3000, cell=1, umi='TTT', r2_contig=with_reads[-1], r2_pos=3500)] = 'split'
    if with_reads:
        truth[b.pair(with_reads[0], 3300, cell=2, umi='TAT', r1_only_in_file=True)] = 'orphan'
    for _ in range(n_unmapped):
        truth[b.unmapped_pair()] = 'unmapped'
    b.write(path)
    return truth


def rec_key(r, both):
    mate = r['mate'] if r['name'] in both else 0
    return (r['name'], mate, r['seq'], r['qual'], r['contig'], r['pos'], r['cigar'])


def compare(inp, out_path, tag):
    """conservation + well-formedness of one output against the input records"""
    viol = []
    if not os.path.exists(out_path):
        return [(f'{tag}:no-output-bam', {})], None
    try:
        out = records(out_path)
    except Exception as ex:
        return [(f'{tag}:output-unreadable:{type(ex).__name__}', repr(ex))], None
    names = {}
    for r in inp:
        names.setdefault(r['name'], set()).add(r['mate'])
    both = {n for n, m in names.items() if len(m) == 2}
    want = sorted(rec_key(r, both) for r in inp)
    got = sorted(rec_key(r, both) for r in out)
    if want != got:
        from collections import Counter
        cw, cg = Counter(want), Counter(got)
        lost = list((cw - cg).elements())
        extra = list((cg - cw).elements())
        lost_names = {(k[0], k[1]) for k in lost}
        extra_names = {(k[0], k[1]) for k in extra}
        if lost_names & extra_names:
            viol.append((f'{tag}:record-altered', {'before': lost[:2], 'after': extra[:2]}))
        if lost_names - extra_names:
            kinds = sorted({'unmapped' if k[4] is None else 'mapped' for k in lost if (k[0], k[1]) not in extra_names})
            viol.append((f'{tag}:record-lost:{"+".join(kinds)}', {'lost': lost[:3], 'n': len(lost)}))
        if extra_names - lost_names:
            kinds = sorted({'unmapped' if k[4] is None else 'mapped' for k in extra if (k[0], k[1]) not in lost_names})
            viol.append((f'{tag}:record-written-twice:{"+".join(kinds)}', {'extra': extra[:3], 'n': len(extra)}))
    if not is_coordinate_sorted(out):
        viol.append((f'{tag}:output-not-coordinate-sorted', {}))
    if not (os.path.exists(out_path + '.bai') or os.path.exists(out_path + '.csi')):
        viol.append((f'{tag}:index-missing', {}))
    else:
        try:
            with pysam.AlignmentFile(out_path) as f:
                n = 0
                for c in f.references:
                    n += sum(1 for _ in f.fetch(c))
                n_mapped_placed = sum(1 for r in out if r['tid'] >= 0)
                if n != n_mapped_placed:
                    viol.append((f'{tag}:index-does-not-cover-all-records', {'via_index': n, 'in_file': n_mapped_placed}))
                rgs = {rg['ID'] for rg in f.header.to_dict().get('RG', [])}
        except Exception as ex:
            viol.append((f'{tag}:index-unusable:{type(ex).__name__}', repr(ex)))
            rgs = None
        if rgs is not None:
            for r in out:
                rg = r['tags'].get('RG')
                if rg is None:
                    viol.append((f'{tag}:record-without-read-group', {'name': r['name']}))
                    break
                if rg not in rgs:
                    viol.append((f'{tag}:read-group-not-declared-in-header', {'RG': rg, 'declared': sorted(rgs)}))
                    break
    return viol, out


def run_case(case, keep=None):
    """case: {'layout': [...], 'unmapped': n, 'method': m, 'no_rejects': bool, 'mode': 'single'|'multi', 'order': [...]|None}"""
    d = tempfile.mkdtemp(prefix='c05_', dir='/dev/shm')
    try:
        inp_path = os.path.join(d, 'in.bam')
        truth = build_bam(inp_path, tuple(case['layout']), case['unmapped'])
        inp = records(inp_path)
        return run_on(d, inp_path, inp, truth, case)
    finally:
        shutil.rmtree(d, ignore_errors=True)


def run_on(d, inp_path, inp, truth, case, real_pool=False):
    out_path = os.path.join(d, f'out_{case["mode"]}.bam')
    for p in (out_path, out_path + '.bai'):
        if os.path.exists(p):
            os.remove(p)
    argv = [inp_path, '-method', case['method'], '-o', out_path, '-temp_folder', d]
    if case['no_rejects']:
        argv.append('--no_rejects')
    if case['mode'] == 'multi':
        argv.append('--multiprocess')
    order = case.get('order')
    tag = f"{case['method']}:{'multiprocess' if case['mode'] == 'multi' else 'single'}" + (':no_rejects' if case['no_rejects'] else '')
    if real_pool:
        err = tagger.run_tagger_subprocess(argv)
        if err is not None:
            return [(f'{tag}:real-pool-run-failed', err)], {'jobs': None}
        info = {'jobs': None}
    else:
        exc, sch = tagger.run_tagger(argv, order=order)
        if exc is not None:
            return [(f'{tag}:exception:{type(exc).__name__}', repr(exc))], {'jobs': None}
        info = {'jobs': sch.log[0]['n'] if sch.log else None}
    if not case['no_rejects']:
        viol, out = compare(inp, out_path, tag)
        return viol, info
    # --no_rejects: exactly the invalid fragments are removed
    removed_ok = {'nomotif', 'unmapped'} if case['method'] == 'nla' else {'unmapped'}
    must_keep = {'valid'} if case['method'] == 'nla' else {'valid', 'nomotif'}
    keep_inp = [r for r in inp if truth[r['name']] in must_keep]
    viol = []
    if not os.path.exists(out_path):
        return [(f'{tag}:no-output-bam', {})], info
    out = records(out_path)
    names_out = {r['name'] for r in out}
    lost = sorted({r['name'] for r in keep_inp} - names_out)
    if lost:
        viol.append((f'{tag}:valid-fragment-removed', {'names': lost[:3]}))
    bad = sorted(n for n in names_out if truth[n] in removed_ok)
    if bad:
        viol.append((f'{tag}:invalid-fragment-kept', {'names': bad[:3], 'classes': sorted({truth[n] for n in bad})}))
    rej = [r['name'] for r in out if r['qcfail']]
    if rej:
        viol.append((f'{tag}:rejected-(qcfail)-record-written', {'names': rej[:3]}))
    # every kept record is an unaltered input record, written once
    names = {}
    for r in inp:
        names.setdefault(r['name'], set()).add(r['mate'])
    both = {n for n, m in names.items() if len(m) == 2}
    inp_keys = {}
    for r in inp:
        inp_keys[rec_key(r, both)] = inp_keys.get(rec_key(r, both), 0) + 1
    seen = {}
    for r in out:
        k = rec_key(r, both)
        seen[k] = seen.get(k, 0) + 1
        if k not in inp_keys:
            viol.append((f'{tag}:record-altered', {'record': k}))
            break
        if seen[k] > inp_keys[k]:
            viol.append((f'{tag}:record-written-twice', {'record': k}))
            break
    if not is_coordinate_sorted(out):
        viol.append((f'{tag}:output-not-coordinate-sorted', {}))
    if not os.path.exists(out_path + '.bai'):
        viol.append((f'{tag}:index-missing', {}))
    return viol, info


def layouts(tier):
    b = bounds(tier)
    for n in range(1, b['bam_max_contigs'] + 1):
        for lay in itertools.product(b['contig_kinds'], repeat=n):
            yield lay


def shards(tier):
    out = [('jobs', tier)]
    ls = list(layouts(tier))
    G = 2 if tier == 'quick' else 6
    for i in range(0, len(ls), G):
        out.append(('bams', ls[i:i + G]))
    out.append(('conformance', tier))
    out.append(('big', 'single'))
    out.append(('big', 'multi'))
    return out


def run_shard(shard, tier, acc):
    if shard[0] == 'jobs':
        n = bounds(tier)['job_builder_max_contigs']
        for k in range(0, n + 1):
            for lay in itertools.product('SML', repeat=k):
                for unmapped in (False, True):
                    case = {'kind': 'jobs', 'layout': ''.join(lay), 'unmapped': unmapped}
                    viols, njobs = check_jobs(case['layout'], unmapped)
                    acc.case(case, transitions=max(njobs, 1), nontrivial=(('S' in lay or 'M' in lay) and 'L' in lay), outcome=f'jobs={min(njobs, 6)}')
                    for sig, d in viols:
                        acc.violation(sig, case, d)
        return
    if shard[0] == 'big':
        # more fragments than the default buffer-ejection interval (10 000): the ejection branch runs inside the tagger
        case = {'kind': 'big', 'mode': shard[1], 'method': 'chic', 'no_rejects': False, 'order': None, 'fragments': 10500}
        viols, info = run_big(case)
        acc.case(case, transitions=21000, nontrivial=True, outcome=f'big:{shard[1]}:viol={len(viols)}')
        for sig, d in viols:
            acc.violation(sig, case, d)
        return
    if shard[0] == 'conformance':
        # free-running pass with the real multiprocessing.Pool: the fake pool must not hide anything
        for lay, um in ((('S+', 'L+', 'S+'), 1), (('M+', 'M+', 'S+'), 1), (('L+', 'S+', 'S0', 'L+')[:bounds(tier)['bam_max_contigs']], 1)):
            case = {'kind': 'conformance', 'layout': list(lay), 'unmapped': um, 'method': 'nla', 'no_rejects': False, 'mode': 'multi',
                    'order': None}
            viols, info = _conformance(case)
            acc.case(case, transitions=1, nontrivial=True, outcome='conformance-real-pool')
            acc.count('conformance_runs')
            for sig, d in viols:
                acc.violation(sig, case, d)
        return
    # One directory and ONE input path for the whole shard: every layout replaces the BAM (and its index) at the same path,
    # as a pipeline that regenerates its input does. Anything the code under test remembers about a path between runs
    # (contig tables, index statistics) is then stale.
    shard_dir = tempfile.mkdtemp(prefix='c05_', dir='/dev/shm')
    for lay in shard[1]:
        for um in bounds(tier)['unmapped_pairs']:
            d = shard_dir
            for fn in os.listdir(d):
                fp = os.path.join(d, fn)
                if os.path.isdir(fp):
                    shutil.rmtree(fp, ignore_errors=True)
                else:
                    os.remove(fp)
            try:
                inp_path = os.path.join(d, 'in.bam')
                truth = build_bam(inp_path, lay, um)
                inp = records(inp_path)
                njobs = None
                for method in bounds(tier)['methods']:
                    for no_rej in (False, True):
                        if method == 'qflag' and no_rej:
                            continue
                        base = {'kind': 'bam', 'layout': list(lay), 'unmapped': um, 'method': method, 'no_rejects': no_rej}
                        plans = [('single', None)]
                        # learn the number of jobs from a first multiprocess run in submission order
                        c0 = dict(base, mode='multi', order=None)
                        viols, info = run_on(d, inp_path, inp, truth, c0)
                        _report(acc, c0, viols, info, len(inp))
                        njobs = info.get('jobs')
                        if njobs:
                            if method == 'nla' and not no_rej:
                                orders = [o for o in all_orders(njobs) if list(o) != list(range(njobs))] if njobs <= 5 else [tuple(reversed(range(njobs)))]
                            else:
                                orders = [tuple(reversed(range(njobs)))] if njobs > 1 else []
                            plans += [('multi', list(o)) for o in orders]
                        for mode, order in plans:
                            c = dict(base, mode=mode, order=order)
                            viols, info = run_on(d, inp_path, inp, truth, c)
                            _report(acc, c, viols, info, len(inp))
            finally:
                pass
    shutil.rmtree(shard_dir, ignore_errors=True)


def _report(acc, case, viols, info, nrec):
    nj = info.get('jobs')
    acc.case(case, transitions=nrec, nontrivial=(case['mode'] == 'multi' and (nj or 0) >= 3 and case.get('order') is not None),
             outcome=f"{case['method']}:{case['mode']}:jobs={nj}:norej={case['no_rejects']}:viol={len(viols)}")
    for sig, d in viols:
        acc.violation(sig, case, d)


def run_big(case):
    d = tempfile.mkdtemp(prefix='c05b_', dir='/dev/shm')
    try:
        b = Builder([('cL', 3000000), ('cS', 5000)])
        truth = {}
        for i in range(case['fragments']):
            truth[b.pair('cL', 1000 + 200 * i, cell=1 + i % 3, umi='AAA', method='chic', mx='scCHIC384C8U3')] = 'valid'
        truth[b.pair('cS', 1000, cell=1, umi='CCC', method='chic', mx='scCHIC384C8U3')] = 'valid'
        inp_path = b.write(os.path.join(d, 'in.bam'))
        inp = records(inp_path)
        return run_on(d, inp_path, inp, truth, case)
    finally:
        shutil.rmtree(d, ignore_errors=True)


def _conformance(case):
    d = tempfile.mkdtemp(prefix='c05c_', dir='/dev/shm')
    try:
        inp_path = os.path.join(d, 'in.bam')
        truth = build_bam(inp_path, tuple(case['layout']), case['unmapped'])
        inp = records(inp_path)
        return run_on(d, inp_path, inp, truth, case, real_pool=True)
    finally:
        shutil.rmtree(d, ignore_errors=True)


def replay(case):
    if case['kind'] == 'jobs':
        return check_jobs(case['layout'], case['unmapped'])[0]
    if case['kind'] == 'conformance':
        return _conformance(case)[0]
    if case['kind'] == 'big':
        return run_big(case)[0]
    return run_case(case)[0]
