#!/venv/bin/python
"""Audit aid: which lines / branches of a property's anchored files does its check execute?

usage: tools/coverage_audit.py C09 [--tier=quick] [--files=path,path] [--show-missing]

Runs `./check C09` with VERIF_COVERAGE set (the engine then records line+branch coverage of the tree under test in
every shard-group process), combines the data and prints, for each anchored file, the lines and branch arcs never
executed, grouped by enclosing function. Unexecuted code inside the mechanisms a property names means the alphabet
lacks the letter that reaches it. Evidence is redirected; nothing under /verif/evidence is touched.
Note: code that runs in subprocesses (real-Pool conformance runs) is not traced.
"""
import ast
import json
import os
import shutil
import subprocess
import sys
import tempfile

VERIF = os.path.dirname(os.path.dirname(os.path.abspath(__file__)))


def functions(path):
    out = []
    tree = ast.parse(open(path).read())
    for node in ast.walk(tree):
        if isinstance(node, (ast.FunctionDef, ast.AsyncFunctionDef)):
            out.append((node.lineno, node.end_lineno, node.name))
    return sorted(out)


def main():
    prop = sys.argv[1]
    tier = 'quick'
    files = None
    for a in sys.argv[2:]:
        if a.startswith('--tier='):
            tier = a.split('=', 1)[1]
        if a.startswith('--files='):
            files = a.split('=', 1)[1].split(',')
    repo = os.path.realpath(os.environ.get('VERIF_REPO', '/repo'))
    if files is None:
        for line in open(os.path.join(VERIF, 'properties.jsonl')):
            d = json.loads(line)
            if d['id'] == prop:
                files = d['anchors']['files']
    d = tempfile.mkdtemp(dir='/dev/shm', prefix='cov_')
    try:
        env = dict(os.environ, VERIF_COVERAGE=d, VERIF_EVIDENCE_DIR=os.path.join(d, 'ev'))
        p = subprocess.run(f'./check {prop} --tier {tier}', shell=True, cwd=VERIF, env=env, capture_output=True, text=True)
        print('check exit', p.returncode)
        import coverage
        cov = coverage.Coverage(data_file=os.path.join(d, 'combined'), branch=True)
        cov.combine([os.path.join(d, f) for f in os.listdir(d) if f.startswith('cov.')])
        data = cov.get_data()
        for f in files:
            path = os.path.join(repo, f)
            try:
                _, statements, excluded, missing, _ = cov.analysis2(path)
            except Exception as e:
                print(f'## {f}: no data ({e})')
                continue
            ana = cov._analyze(path)
            mb = ana.missing_branch_arcs()
            print(f'## {f}: {len(statements) - len(missing)}/{len(statements)} statements executed; '
                  f'{sum(len(v) for v in mb.values())} branch arcs never taken')
            fns = functions(path)
            per = {}
            for ln in missing:
                owner = [n for (a, b, n) in fns if a <= ln <= b]
                per.setdefault(owner[-1] if owner else '<module>', []).append(ln)
            perb = {}
            for src, dsts in mb.items():
                owner = [n for (a, b, n) in fns if a <= src <= b]
                perb.setdefault(owner[-1] if owner else '<module>', []).extend(f'{src}->{t}' for t in dsts)
            total = {}
            for (a, b, n) in fns:
                total[n] = total.get(n, 0) + sum(1 for s in statements if a <= s <= b)
            for n in sorted(set(per) | set(perb), key=lambda n: (n not in per, n)):
                ml = per.get(n, [])
                if n != '<module>' and total.get(n) and len(ml) >= total[n] - 1:
                    print(f'  {n}: never entered ({total[n]} statements)')
                    continue
                print(f'  {n}: missing lines {_ranges(ml)}; untaken arcs {perb.get(n, [])}')
    finally:
        shutil.rmtree(d, ignore_errors=True)


def _ranges(lines):
    out, start, prev = [], None, None
    for ln in sorted(lines):
        if start is None:
            start = prev = ln
        elif ln == prev + 1:
            prev = ln
        else:
            out.append(f'{start}-{prev}' if prev != start else f'{start}')
            start = prev = ln
    if start is not None:
        out.append(f'{start}-{prev}' if prev != start else f'{start}')
    return ','.join(out)


if __name__ == '__main__':
    main()
