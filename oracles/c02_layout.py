"""C02 oracle: the protocol layout table, position-coded reads and the expected records.

Everything here is written from the strategies' `description` / `longName` texts, TAGS.MD and (rows
marked weak) code comments - never from the constructor arguments of the strategy classes, and no
function of the package under test is used to compute an expected value.

Coordinates in the table are the ones of DESIGN.md appendix A: `m[s:e]` = half open slice of mate m
(1 = R1, 2 = R2).  Internally mates are 0-based.
"""
import os
import re

# ------------------------------------------------------------------------------------------------
# header-safe quality alphabet (TAGS.MD "Is phred" tags are stored in the read name as letters,
# phred q -> LETTERS[q]; example in the package docs: "QT:eeeeeeee;RX:CTGAAC;RQ:aaaaae")
LETTERS = 'abcdefghijklmnopqrstuvwxyzABCDEFGHIJKLMNOPQRSTUVWXYZ'


def decode_safe(s):
    """letters -> the phred characters they stand for; None when a character is not a letter"""
    out = []
    for c in s:
        i = LETTERS.find(c)
        if i < 0:
            return None
        out.append(chr(33 + i))
    return ''.join(out)


_SEG = re.compile(r'^([12])\[(\d+):(\d+)\]$')


def segs(text):
    """'1[3:7]+1[10:14]' -> [(0,3,7),(0,10,14)]"""
    if not text:
        return []
    out = []
    for part in text.split('+'):
        m = _SEG.match(part.strip())
        if not m:
            raise ValueError(f'bad segment {part!r}')
        out.append((int(m.group(1)) - 1, int(m.group(2)), int(m.group(3))))
    return out


# ------------------------------------------------------------------------------------------------
# The layout table.  primer = (mate, length, side); side 'start' = the description says "starts
# with", 'either' = the description says "ends with a 6bp random primer" for a configuration that is
# physically identical to the NLAIII one documented as "R2 starts with": both readings are accepted
# as long as rS holds exactly the bases that were removed from the emitted read (weak: primer side).
# single: 'only' = description says there is no R2, 'ok' = layout does not involve R2, 'no' = pairs.
def _row(short, alias, bc, umi, primer, lig, insert, single='no', extra=None, src='D', weak='', quote=''):
    return {'short': short, 'alias': alias, 'bc': segs(bc), 'umi': segs(umi), 'primer': primer,
            'lig': segs(lig), 'insert': insert, 'single': single, 'extra': {k: segs(v) for k, v in (extra or {}).items()},
            'src': src, 'weak': weak, 'quote': quote}


ROWS = {}
for _r in [
    _row('CS1C8U4', 'celseq1', '1[0:8]', '1[8:12]', (1, 6, 'either'), '', {0: 12, 1: 6},
         weak='primer side', quote='R1 starts with a 8bp cell barcode followed by a 4bp UMI. R2 ends with a 6bp random primer'),
    _row('CS2C8U6', 'celseq2', '1[6:14]', '1[0:6]', (1, 6, 'either'), '', {0: 14, 1: 6},
         weak='primer side', quote='R1 starts with a 6bp UMI followed by a 8bp cell barcode. R2 ends with a 6bp random primer'),
    _row('CS2C8U6NH', 'celseq2', '1[6:14]', '1[0:6]', None, '', {0: 14, 1: 0},
         quote='R1 starts with a 6bp UMI followed by a 8bp cell barcode. R2 has no random primer'),
    _row('CS2C8U8S', 'celseq2', '2[8:16]', '2[0:8]', (0, 6, 'either'), '', {0: 6, 1: 16}, src='X',
         weak='primer side',
         quote='R2 starts with a longer 8bp UMI followed by a 8bp cell barcode. R1 ends with a 6bp primer'),
    _row('CS2C8U8NNLA', 'celseq2_noNla', '1[8:16]', '1[0:8]', (1, 6, 'either'), '', {0: 16, 1: 6},
         weak='order UMI-CB and the R2 primer are the CEL-Seq2 family convention (longName only gives the lengths)',
         quote='CELSeq 2, CB: 8bp, UMI: 8bp, NLAIII free'),
    _row('CS2C8U6S', 'celseq2', '2[6:14]', '2[0:6]', (0, 6, 'either'), '', {0: 6, 1: 14},
         weak='primer side', quote='R2 starts with a 6bp UMI followed by a 8bp cell barcode. R1 ends with a 6bp random primer'),
    _row('NLAIII384C8U3', 'maya_384NLA', '1[3:11]', '1[0:3]', (1, 6, 'start'), '', {0: 11, 1: 6},
         quote='3bp umi followed by 8bp barcode. R2 starts with a 6bp random primer'),
    _row('NLAIII96C8U3', 'lennart96NLA', '1[3:11]', '1[0:3]', (1, 6, 'start'), '', {0: 11, 1: 6},
         quote='3bp umi followed by 8bp barcode. R2 starts with a 6bp random primer'),
    _row('NLAIII384C8U3SE', 'maya_384NLA', '1[3:11]', '1[0:3]', None, '', {0: 11}, single='only',
         quote='3bp umi followed by 8bp barcode. Single end: R2 is sadly missing'),
    _row('NLAIII96C8U3SE', 'lennart96NLA', '1[3:11]', '1[0:3]', None, '', {0: 11}, single='only',
         quote='3bp umi followed by 8bp barcode. Single end: R2 is missing'),
    _row('RBSN', 'nla_bisulfite', '1[8:16]', '1[0:8]', None, '', {0: 34, 1: 0},
         extra={'ES': '1[16:19]', 'IS': '1[19:34]'},
         quote='UMI: 8 bp, CB: 8bp, Enz. ID: 3bp, ISPCR: 15 bp; R1 contains UMI, BC, Enzyme ID and ISPCR.'),
    _row('scCHIC384C8U3', 'maya_384NLA', '1[3:11]', '1[0:3]', (1, 6, 'either'), '1[11:13]', {0: 12, 1: 6},
         weak='primer side; the 2-base width of lh is a code comment',
         quote='3bp umi followed by 8bp barcode and a single A. R2 ends with a 6bp random primer'),
    _row('scCHIC384C8U3l', 'maya_384NLA', '1[3:11]', '1[0:3]', None, '1[11:13]', {0: 12, 1: 0},
         weak='the 2-base width of lh is a code comment',
         quote='3bp umi followed by 8bp barcode and a single A. R2 does not contain a random primer'),
    _row('scCHIC384C8U3se', 'maya_384NLA', '1[3:11]', '1[0:3]', None, '1[11:13]', {0: 12}, single='only',
         weak='the 2-base width of lh is a code comment',
         quote='3bp umi followed by 8bp barcode and a single A. No read 2'),
    _row('MSPJIC8U3', 'maya_mspj1', '1[3:11]', '1[0:3]', None, '', {0: 11, 1: 0}, single='ok',
         quote='MSPJI barcoded fragments. 3bp umi followed by 8bp cell barcode.'),
    _row('SCARC8R1', 'scartrace', '1[0:8]', '', None, '', {0: 8, 1: 0}, single='ok',
         quote='Scar amplicon demultiplexing, cell barcode in read 1; CB: 8bp'),
    _row('SCARC8R2', 'scartrace', '2[0:8]', '', None, '', {0: 0, 1: 8},
         quote='Scar amplicon demultiplexing, cell barcode in read 2; CB: 8bp'),
    _row('SCARC8R2R4', 'scartrace', '2[0:8]', '', (0, 4, 'start'), '', {0: 4, 1: 8},
         weak='primer side (the description gives only "4bp random sequence in R1")',
         quote='cell barcode in read [2], 4bp random sequence in R1'),
    _row('CHROMC16U12', '10x_3M-february-2018', '1[0:16]', '1[16:28]', None, '', {0: 28, 1: 0}, single='ok',
         quote='R1 starts with a 16bp cell barcode followed by a 12bp UMI.'),
    _row('DamID2', 'DamID2', '1[3:13]', '1[0:3]', None, '1[11:13]', {0: 12, 1: 0}, single='ok', src='C',
         weak='insert start (code comment: keep the last barcode base) and lh = the CA overhang',
         quote='3bp umi followed by 10bp barcode, the last two bases of the barcode are CA'),
    _row('DamID2_8bp_noCA', 'DamID2_8bp', '1[3:11]', '1[0:3]', None, '1[11:13]', {0: 10, 1: 0}, single='ok', src='C',
         weak='insert start and lh position are code comments',
         quote='3bp umi followed by 8bp barcode, no CA overhang in barcodes'),
    _row('DamID2_3u4b3u6b', 'DamID2_scattered_8bp', '1[3:7]+1[10:14]', '1[0:3]+1[7:10]', None, '1[14:16]',
         {0: 14, 1: 0}, single='ok', src='C',
         weak='the name says 6bp second barcode part, the shipped whitelist is 4+4; lh is a code comment',
         quote='DamID, starting with a 3bp UMI, 4bp CB, 3bp UMI, 6bp CB'),
    # sub-layouts of the composite strategies (never registered under these names)
    _row('_SCA_TX', 'CS2_scattered_8bp', '1[3:7]+1[10:14]', '1[0:3]+1[7:10]', None, '1[14:16]', {0: 14, 1: 0}, src='C',
         weak='composite sub-layout', quote='starting with a 3bp UMI, 4bp CB, 3bp UMI, 4bp CB'),
    _row('_SCA_DAM10', 'DamID2_scattered_10bp', '1[3:7]+1[10:16]', '1[0:3]+1[7:10]', None, '1[16:18]', {0: 16, 1: 0},
         src='C', weak='composite sub-layout; whitelist not shipped', quote='3bp UMI, 4bp CB, 3bp UMI, 6bp CB'),
]:
    ROWS[_r['short']] = _r
del _r

# strategies whose layout is a function of the read content (see expected())
COMPOSITE = {
    'TCHIC': 'scCHIC384C8U3l row; VASA bleed-through (cs2 barcode + TTTTT in R1 or reverse complement of R2): R2 is a prefix of R2',
    'CHICTV': 'scCHIC384C8U3l row; R1 insert ends where the TSO oligo AGACTCTTT starts; tu = <= 6 bases before it',
    'DamAndT': 'DamID2 row when R1[3:13] is a DamID2 barcode, else CS2C8U6 row with the leading poly-T of the R1 insert stripped',
    'DamID2andT_3u4b3u4b': 'DamID2_3u4b3u6b row when the barcode is in DamID2_scattered_8bp, else the same layout on CS2_scattered_8bp with poly-T stripped',
    'DamID2andT_3u4b3u6b': '3u4b3u6b layout on DamID2_scattered_10bp (not shipped) else 3u4b3u4b on CS2_scattered_8bp with poly-T stripped',
    'ILLU': 'bulk: both mates are emitted unchanged',
}
ALL_SHORT = sorted(set(ROWS) - {'_SCA_TX', '_SCA_DAM10'} | set(COMPOSITE))

TSO = 'AGACTCTTT'
POLY = 10
T7 = ('AGTCCGACGAT', 'GTTCTACAGT', 'TAATACGACTCACTATAGGG')


def table_selfcheck():
    """every base before the documented insert start is covered by a documented tag segment"""
    bad = []
    for short, r in ROWS.items():
        for mate, start in r['insert'].items():
            cov = set()
            for s in r['bc'] + r['umi'] + r['lig'] + [x for v in r['extra'].values() for x in v]:
                if s[0] == mate:
                    cov.update(range(s[1], s[2]))
            if r['primer'] and r['primer'][0] == mate:
                cov.update(range(0, r['primer'][1]))
            if not set(range(start)) <= cov:
                bad.append((short, mate))
        if r['primer'] and r['primer'][2] == 'either':
            m, ln, _ = r['primer']
            others = [x for x in r['bc'] + r['umi'] + r['lig'] if x[0] == m]
            if others or r['insert'].get(m) != ln:
                bad.append((short, 'either-primer-mate-not-bare'))
    return bad


# ------------------------------------------------------------------------------------------------
# whitelists, read independently of the package's parser (files: "index barcode", "barcode index"
# or one barcode per line, numbered from 1)
def read_whitelist(repo, alias, directory='barcodes'):
    base = os.path.join(repo, 'singlecellmultiomics', 'modularDemultiplexer', directory)
    for ext in ('.bc', '.bc.gz'):
        p = os.path.join(base, alias + ext)
        if os.path.exists(p):
            break
    else:
        return None
    if p.endswith('.gz'):
        import gzip
        try:
            with gzip.open(p, 'rt') as f:
                lines = f.read().splitlines()
        except (EOFError, OSError):
            lines = []
        if os.path.getsize(p) == 0:
            lines = []
    else:
        with open(p) as f:
            lines = f.read().splitlines()
    out = {}
    for i, line in enumerate(lines):
        parts = line.split()
        if not parts:
            continue
        if len(parts) == 1:
            out[parts[0]] = str(i + 1)
        else:
            a, b = parts[0], parts[1]
            if set(a) <= set('ACGTNX') and not set(b) <= set('ACGTNX'):
                out[a] = b
            else:
                out[b] = a
    return out


def hamming(a, b):
    if len(a) != len(b):
        return None
    return sum(1 for x, y in zip(a, b) if x != y)


def revcomp(s):
    c = {'A': 'T', 'C': 'G', 'G': 'C', 'T': 'A', 'N': 'N'}
    return ''.join(c.get(x, x) for x in reversed(s))


# ------------------------------------------------------------------------------------------------
# position-coded reads
def _debruijn(k, n):
    a = [0] * (k * n)
    seq = []

    def db(t, p):
        if t > n:
            if n % p == 0:
                seq.extend(a[1:p + 1])
        else:
            a[t] = a[t - p]
            db(t + 1, p)
            for j in range(a[t - p] + 1, k):
                a[t] = j
                db(t + 1, t)
    db(1, 1)
    return seq


_DB = ''.join('ACGT'[i] for i in _debruijn(4, 5))     # 1024 bases, every 5-mer exactly once (cyclic)
READLEN = 150
N_POS = (2, 47, 149)                                   # "with N": inside the UMI of UMI-first layouts and in inserts
_W = [_DB[300:300 + READLEN], _DB[700:700 + READLEN]]  # disjoint stretches: no 5-mer shared between the mates


def _word(mate):
    w = list(_W[mate])
    for p in N_POS:
        w[p] = 'N'
    return ''.join(w)


WORD = [_word(0), _word(1)]
# quality = f(mate, position): phred 0..51, step 1 on R1 and step 7 on R2 => every window of >= 2
# qualities identifies its mate and its offset (mod 52), the de-Bruijn bases resolve the rest
QUAL = [''.join(chr(33 + (i % 52)) for i in range(READLEN)),
        ''.join(chr(33 + ((7 * i + 13) % 52)) for i in range(READLEN))]
HEADER = '@NS500414:628:H7YVNBGXC:1:11101:15963:1046 {m}:N:0:ATCACG'

# ---- variants of the position code (audit extension; bases and qualities can be varied independently): variant v > 0 shifts the de-Bruijn window of both mates by 3*v
# bases (the mates stay on disjoint stretches: no shared 5-mer), rotates both quality codes by v (so that every
# position sees every phred value 0..51 over v = 0..51) and puts one more N at position (v-1) % 20 of both mates
# (UMI, ligation, primer and early insert positions).  v = 0 is exactly the original code.  A third mate (3-read
# input) has its own disjoint stretch and quality step.
VARIANTS = 52
_W3 = _DB[20:20 + READLEN]


def _vword(mate, v):
    if v == 0:
        return WORD[mate]
    off = (300, 700)[mate] + 3 * v
    w = list(_DB[off:off + READLEN])
    for p in N_POS + ((v - 1) % 20,):
        w[p] = 'N'
    return ''.join(w)


def _vqual(mate, v):
    if mate == 0:
        return ''.join(chr(33 + ((i + v) % 52)) for i in range(READLEN))
    if mate == 1:
        return ''.join(chr(33 + ((7 * i + 13 + v) % 52)) for i in range(READLEN))
    return ''.join(chr(33 + ((11 * i + 5 + v) % 52)) for i in range(READLEN))


def build_reads(plant, l1, l2, v=0, l3=None, q=None):
    """plant: [[mate, start, bases], ...] written over the position-coded words (later entries win),
    then the mates are cut to their length. Returns [(header, seq, '+', qual), (..)] (+ a third mate when l3 is given).
    v = variant of the bases, q = rotation of the quality code (default: the same as v)"""
    if q is None:
        q = v
    w = [list(_vword(0, v)), list(_vword(1, v))]
    if l3 is not None:
        w.append(list(_W3))
    for mate, start, bases in plant:
        for i, c in enumerate(bases):
            if 0 <= start + i < READLEN:
                w[mate][start + i] = c
    out = []
    for mate, ln in ((0, l1), (1, l2)) + (((2, l3),) if l3 is not None else ()):
        out.append((HEADER.format(m=mate + 1), ''.join(w[mate])[:ln], '+', _vqual(mate, q)[:ln]))
    return out


def cut(rec, segments, what):
    """concatenate the documented slices of the reads; what = 1 bases, 3 qualities"""
    return ''.join(rec[m][what][s:e] if m < len(rec) else '' for m, s, e in segments)


# ------------------------------------------------------------------------------------------------
# expectation = {'tags': {tag: bases}, 'qtags': {tag: phred chars}, 'forbidden': [tags],
#                'emit': {mate: [(seq, qual, {extra tag expectations}), ... alternatives]},
#                'covered': {mate: set(positions recorded in a tag)}, 'alias': whitelist alias, 'note': str}


def expect_row(row, rec, strip_poly_t=False):
    nm = len(rec)
    e = {'tags': {}, 'qtags': {}, 'forbidden': [], 'emit': {}, 'alias': row['alias'], 'covered': {}, 'note': row['short']}
    e['tags']['bc'] = cut(rec, row['bc'], 1)
    if row['umi']:
        e['tags']['RX'] = cut(rec, row['umi'], 1)
        e['qtags']['RQ'] = cut(rec, row['umi'], 3)
    else:
        e['forbidden'] += ['RX', 'RQ']
    if row['lig']:
        e['tags']['lh'] = cut(rec, row['lig'], 1)
        e['qtags']['lq'] = cut(rec, row['lig'], 3)
    else:
        e['forbidden'] += ['lh', 'lq']
    for tag, sg in row['extra'].items():
        e['tags'][tag] = cut(rec, sg, 1)
    if not row['primer'] or row['primer'][0] >= nm:
        e['forbidden'].append('rS')
    for mate in range(nm):
        seq, qual = rec[mate][1], rec[mate][3]
        start = row['insert'].get(mate, 0)
        cov = set()
        for s in row['bc'] + row['umi'] + row['lig'] + [x for v in row['extra'].values() for x in v]:
            if s[0] == mate:
                cov.update(range(s[1], s[2]))
        alts = []
        if row['primer'] and row['primer'][0] == mate:
            _, ln, side = row['primer']
            if side in ('start', 'either'):
                alts.append((seq[start:], qual[start:], {'rS': seq[0:ln]}))
            if side == 'either':
                # primer at the far end of the mate (nothing else is documented on this mate)
                alts.append((seq[:-ln], qual[:-ln], {'rS': seq[-ln:]}))
            cov.update(range(0, ln))
        elif strip_poly_t and mate == 0:
            ins = seq[start:]
            k = len(ins) - len(ins.lstrip('T'))
            # weak (code comment "Prune the poly T off R1 start"): exactly the leading T's are stripped;
            # an insert consisting only of T's may keep its last T
            for j in range(0, k + 1):
                rest = ins[j:]
                if j == k or (j == k - 1 and len(rest) == 1):
                    alts.append((rest, qual[start + j:], {}))
            cov.update(range(start, start + k))
        else:
            alts.append((seq[start:], qual[start:], {}))
        e['emit'][mate] = alts
        e['covered'][mate] = cov
    return e


def trim_vasa_r2(seq, qual):
    """weak (code comments in scCHIC.py): cut at the first poly-A, then at the first poly-G (10 nt),
    drop trailing A/G, then drop 3 more bases"""
    i = seq.find('A' * POLY)
    if i >= 0:
        seq = seq[:i]
    i = seq.find('G' * POLY)
    if i >= 0:
        seq = seq[:i]
    seq = seq.rstrip('AG')
    seq = seq[:max(len(seq) - 3, 0)]
    return seq, qual[:len(seq)]


def near(white, raw, hd):
    """raw is a whitelisted barcode, or (expansion hd) within hd substitutions of one"""
    if not white:
        return False
    if raw in white:
        return True
    return hd > 0 and any(len(w) == len(raw) and hamming(w, raw) <= hd for w in white)


def expected(short, rec, wl, hd=0):
    """Return the list of admissible expectations for this input (usually one), [] when no documented
    layout yields an acceptable pair (then the pair has to be rejected or carries a foreign barcode).
    wl(alias) -> {barcode: index} or None.  With expansion > 0 a composite strategy may resolve either of
    its sub-layouts when both barcodes are near a whitelist (which one is C03's subject): both are admissible."""
    nm = len(rec)
    if short == 'ILLU':
        return [{'illu': True}]
    if short in ROWS:
        return [expect_row(ROWS[short], rec)]
    r1 = rec[0][1]
    if short == 'TCHIC':
        if nm != 2:
            return []
        e = expect_row(ROWS['scCHIC384C8U3l'], rec)
        e['note'] = 'TCHIC'
        chic = wl('maya_384NLA') or {}
        cs2 = wl('celseq2') or {}
        idx = chic.get(e['tags']['bc'])
        by_index = {v: k for k, v in cs2.items()}
        vasa = by_index.get(idx)
        ins1, ins2 = rec[0][1][12:], rec[1][1]
        e['opt_tags'] = {}
        if vasa is not None and ((vasa + 'TTTTT') in ins1 or (vasa + 'TTTTT') in revcomp(ins2)):
            s2, q2 = trim_vasa_r2(rec[1][1], rec[1][3])
            e['emit'][1] = [(s2, q2, {})]
            src = ins1 if (vasa + 'TTTTT') in ins1 else revcomp(ins2)
            p = src.find(vasa + 'TTTTT')
            e['opt_tags']['rx'] = src[max(0, p - 6):p]
            e['note'] = 'TCHIC/vasa'
        return [e]
    if short == 'CHICTV':
        if nm != 2:
            return []
        e = expect_row(ROWS['scCHIC384C8U3l'], rec)
        ins = rec[0][1][12:]
        p = ins.find(TSO)
        if p >= 0:
            e['emit'][0] = [(ins[:p], rec[0][3][12:12 + p], {})]
            e['opt_tags'] = {'tu': ins[max(0, p - 6):p]}
            e['note'] = 'CHICTV/tso'
        else:
            e['note'] = 'CHICTV/no-tso'
        return [e]
    if short == 'DamAndT':
        if nm != 2:
            return []
        dam, cs2 = wl('DamID2') or {}, wl('celseq2') or {}
        out = []
        if near(dam, r1[3:13], hd):
            e = expect_row(ROWS['DamID2'], rec)
            e['note'] = 'DamAndT/dam'
            out.append(e)
        if near(cs2, r1[6:14], hd) and not (hd == 0 and out):
            e = expect_row(ROWS['CS2C8U6'], rec, strip_poly_t=True)
            e['note'] = 'DamAndT/tx'
            out.append(e)
        return out
    if short in ('DamID2andT_3u4b3u4b', 'DamID2andT_3u4b3u6b'):
        if nm != 2:
            return []
        if short == 'DamID2andT_3u4b3u4b':
            damrow = ROWS['DamID2_3u4b3u6b']
        else:
            damrow = ROWS['_SCA_DAM10']
        dam = wl(damrow['alias']) or {}
        tx = wl('CS2_scattered_8bp') or {}
        out = []
        if near(dam, cut(rec, damrow['bc'], 1), hd):
            e = expect_row(damrow, rec)
            e['note'] = short + '/dam'
            out.append(e)
        if near(tx, cut(rec, ROWS['_SCA_TX']['bc'], 1), hd) and not (hd == 0 and out):
            e = expect_row(ROWS['_SCA_TX'], rec, strip_poly_t=True)
            e['note'] = short + '/tx'
            out.append(e)
        return out
    raise KeyError(short)


# ------------------------------------------------------------------------------------------------
def compare(short, rec, out, exp_list, wl, hd):
    """rec: input tuples; out: list of (tags dict, sequence, qualities) per emitted record (or strings
    for ILLU). Returns list of (clause, detail)."""
    if exp_list and exp_list[0].get('illu'):
        v = []
        for mate, o in enumerate(out):
            if not isinstance(o, str):
                v.append(('bulk-record-not-a-fastq-string', type(o).__name__)); continue
            lines = o.split('\n')
            if len(lines) < 4 or lines[1] != rec[mate][1] or lines[3] != rec[mate][3]:
                v.append((f'emitted-R{mate + 1}-differs-from-input', lines[1:4]))
        if len(out) != len(rec):
            v.append(('record-count', len(out)))
        return v
    if not exp_list:
        return [('accepted-without-a-whitelisted-barcode-at-a-documented-position', [o[0].get('bc') for o in out])]
    best = None
    for e in exp_list:
        v = _compare_one(short, rec, out, e, wl, hd)
        if not v:
            return []
        if best is None or len(v) < len(best):
            best = v
    return best


def _compare_one(short, rec, out, e, wl, hd):
    v = []
    nm = len(rec)
    if len(out) != nm:
        return [('record-count', len(out))]
    white = wl(e['alias'])
    for mate in range(nm):
        tags, seq, qual = out[mate]
        R = f'R{mate + 1}'
        # ---- table-free invariants
        if len(seq) != len(qual):
            v.append((f'emitted-{R}-bases-and-qualities-differ-in-length', [seq, qual]))
        off = None
        if len(qual) >= 2:
            off = rec[mate][3].find(qual)
            if off < 0 or rec[mate][1][off:off + len(seq)] != seq:
                v.append((f'emitted-{R}-not-one-contiguous-window-of-{R}', [seq, qual]))
                off = None
        elif len(seq) == 1:
            if seq not in rec[mate][1] or qual not in rec[mate][3]:
                v.append((f'emitted-{R}-not-one-contiguous-window-of-{R}', [seq, qual]))
        # ---- emitted window as prescribed
        alts = e['emit'][mate]
        hit = None
        for a in alts:
            if a[0] == seq and a[1] == qual:
                hit = a
                break
        if hit is None:
            v.append((f'emitted-{R}-window', {'got': [seq, qual], 'want': [list(a[:2]) for a in alts][:2]}))
        if off is not None and hit is None:
            missing = sorted(set(range(off)) - e['covered'][mate])
            if missing:
                v.append((f'{R}-bases-before-the-emitted-window-not-recorded-in-any-tag', missing))
        # ---- tags
        want = dict(e['tags'])
        if hit is not None:
            want.update(hit[2])
        else:
            for a in alts[:1]:
                want.update(a[2])
        for tag, val in want.items():
            got = tags.get(tag)
            if got is None:
                if val != '':
                    v.append((f'tag-{tag}-missing', {'want': val}))
            elif str(got) != val:
                v.append((f'tag-{tag}', {'got': got, 'want': val}))
        for tag, val in e['qtags'].items():
            got = tags.get(tag)
            if got is None:
                if val != '':
                    v.append((f'tag-{tag}-missing', {'want': val}))
                continue
            dec = decode_safe(str(got))
            if dec != val:
                v.append((f'tag-{tag}', {'got': got, 'decoded': dec, 'want': val}))
        for tag, val in e.get('opt_tags', {}).items():
            got = tags.get(tag)
            if got is not None and str(got) != val:
                v.append((f'tag-{tag}', {'got': got, 'want': val}))
            if got is None and val != '' and tag == 'tu':
                v.append((f'tag-{tag}-missing', {'want': val}))
        for tag in e['forbidden']:
            if tag in tags:
                v.append((f'tag-{tag}-not-prescribed-by-the-layout', tags[tag]))
        if 'RX' in tags and 'RQ' in tags and len(str(tags['RX'])) != len(str(tags['RQ'])):
            v.append(('RX-RQ-length', [tags['RX'], tags['RQ']]))
        # ---- corrected barcode is a whitelisted one within the expansion distance of the raw barcode
        BC, bc = tags.get('BC'), tags.get('bc')
        if white is None or BC not in white:
            v.append(('BC-not-in-whitelist', BC))
        else:
            d = hamming(str(BC), str(bc))
            if d is None or d > hd:
                v.append(('BC-farther-from-raw-barcode-than-expansion', [BC, bc]))
            if str(tags.get('bi')) != str(white[BC]):
                v.append(('bi-not-the-index-of-BC', [tags.get('bi'), white[BC]]))
    seen, res = set(), []
    for c, d in v:
        if c not in seen:
            seen.add(c)
            res.append((c, d))
    return res
