"""C16 - feature lookups return exactly the overlapping features after any add history.

Explicit-state search over operation histories (add* sort query*)^r on a fresh real FeatureContainer
per history (prefixes are replayed - live containers share a class-level memo).  In every state
ALL point / range / read queries of the alphabet are compared with brute-force interval overlap
on the CURRENT feature multiset, so a stale answer is a plain mismatch.
"""
import itertools

from gen.reads import header, make_read

ID = 'C16'
RULE = ('all histories of r rounds, each round adding a multiset of <=m feature letters (closed intervals over 0..C x strand, '
        'plus 2 letters on a second contig) followed by sort() and then either no query or ALL queries: every point -1..C+2 x '
        'strand {None,+,-} (positional and keyword call forms), every closed range x strand, and in the last round every read of '
        '<=2 aligned blocks (both findFeaturesAtPysamAlign methods); molecule annotation (methods 0 and 1) on every single-round history. '
        'non-trivial = history with >=2 non-empty rounds and >=1 nested or identical interval pair; '
        'states = distinct (history, query-mode) pairs, transitions = queries answered')
ASSUMPTIONS = [
    'a sort() separates additions from queries (the histories of the property quantifier)',
    'feature names are unique per added feature (identical intervals are allowed); strand is + or -',
    'the memo is emptied before each history (= a fresh process) and a history never issues more lookups than the memo holds',
]


def bounds(tier):
    if tier == 'quick':
        return {'runs': [{'C': 3, 'rounds': [2, 2], 'modes': ['none', 'all']}],
                'molecule_level': 'C=3, all single-round histories of <=2 letters'}
    return {'runs': [{'C': 3, 'rounds': [3, 2], 'modes': ['all']},
                     {'C': 4, 'rounds': [2, 2], 'modes': ['none', 'all']},
                     {'C': 2, 'rounds': [2, 1, 2], 'modes': ['all', 'none']}],
            'molecule_level': 'C=3, all single-round histories of <=3 letters'}


def letters(C):
    out = []
    for s in range(0, C + 1):
        for e in range(s, C + 1):
            for st in '+-':
                out.append(('chr1', s, e, st))
    out.append(('chr2', 1, 2, '+'))
    out.append(('chr2', 0, C, '-'))
    return out


def multisets(C, m):
    ls = letters(C)
    out = []
    for k in range(0, m + 1):
        out.extend(itertools.combinations_with_replacement(range(len(ls)), k))
    return out


def shards(tier):
    out = []
    for ri, run in enumerate(bounds(tier)['runs']):
        first = multisets(run['C'], run['rounds'][0])
        for fi in range(len(first)):
            out.append(('hist', ri, fi))
    out.append(('mol', 3, 2 if tier == 'quick' else 3))
    # group history shards to keep the shard count reasonable
    hs = [s for s in out if s[0] == 'hist']
    grouped = []
    G = 8 if tier == 'quick' else 32
    for i in range(0, len(hs), G):
        grouped.append(('histgroup', hs[i:i + G]))
    return grouped + [s for s in out if s[0] != 'hist']


# --------------------------------------------------------------------------- queries
_Q = {}


def queries(C):
    if C in _Q:
        return _Q[C]
    hdr = header([('chr1', 50), ('chr2', 50)])
    pts = []       # (contig, point, strand, call form)
    for p in range(-1, C + 3):
        for st in (None, '+', '-'):
            pts.append(('chr1', p, st, 'pos'))
        pts.append(('chr1', p, None, 'kw'))
        pts.append(('chr2', p, None, 'pos'))
    pts.append(('chrZ', 1, None, 'pos'))
    rngs = []
    for a in range(-1, C + 3):
        for b in range(a, C + 3):
            for st in (None, '+', '-'):
                rngs.append(('chr1', a, b, st))
    for a, b, st in ((0, C, None), (1, 1, '+'), (2, C + 2, None), (-1, 0, '-')):
        rngs.append(('chr2', a, b, st))
    reads = []
    n = 0
    for a in range(0, C + 2):
        for b in range(a + 1, C + 3):
            seq = 'A' * (b - a)
            r = make_read(hdr, f'r{n}', seq, 'chr1', a, f'{b - a}M', paired=False, tags={'SM': 'X_1', 'RX': 'AAA'})
            reads.append((r, frozenset(range(a, b)), ('single', a, b)))
            n += 1
    for a, b, c, d in itertools.combinations(range(0, C + 3), 4):
        seq = 'A' * ((b - a) + (d - c))
        r = make_read(hdr, f'r{n}', seq, 'chr1', a, f'{b - a}M{c - b}N{d - c}M', paired=False,
                      tags={'SM': 'X_1', 'RX': 'AAA'})
        reads.append((r, frozenset(range(a, b)) | frozenset(range(c, d)), ('spliced', a, b, c, d)))
        n += 1
    _Q[C] = (pts, rngs, reads)
    return _Q[C]


def brute_point(feats, contig, p, st):
    return {f for f in feats if f[0] == contig and f[1] <= p <= f[2] and (st is None or f[4] == st)}


def brute_range(feats, contig, a, b, st):
    return {f for f in feats if f[0] == contig and max(a, f[1]) <= min(b, f[2]) and (st is None or f[4] == st)}


def as_set(contig, res):
    return {(contig, r[0], r[1], r[2], r[3]) for r in res}


def _cache_reset():
    from singlecellmultiomics.features import FeatureContainer
    for name in ('findFeaturesAt', 'findNearestFeature'):
        fn = getattr(FeatureContainer, name, None)
        if fn is not None and hasattr(fn, 'cache_clear'):
            fn.cache_clear()


def _cache_overflow():
    from singlecellmultiomics.features import FeatureContainer
    fn = getattr(FeatureContainer, 'findFeaturesAt', None)
    if fn is not None and hasattr(fn, 'cache_info'):
        ci = fn.cache_info()
        return ci.maxsize is not None and ci.currsize >= ci.maxsize
    return False


def run_history(C, rounds, mode_per_round):
    """rounds: list of tuples of letter indices. Returns (violations, n_queries)."""
    from singlecellmultiomics.features import FeatureContainer
    from mc.bind import HarnessError
    ls = letters(C)
    pts, rngs, reads = queries(C)
    _cache_reset()
    fc = FeatureContainer()
    feats = set()          # (contig, start, end, name, strand)
    viol = {}
    nq = 0
    k = 0
    last = len(rounds) - 1
    for ri, add in enumerate(rounds):
        try:
            for li in add:
                contig, s, e, st = ls[li]
                name = f'f{k}'
                k += 1
                fc.addFeature(contig, s, e, name, strand=st, data=None)
                feats.add((contig, s, e, name, st))
            fc.sort()
        except Exception as ex:
            viol.setdefault(f'round{min(ri, 1) + 1}:add-sort:exception:{type(ex).__name__}', repr(ex))
            break
        mode = 'all' if ri == last else mode_per_round
        if mode == 'none':
            continue
        tag = 'first-round' if ri == 0 else 'later-round'
        for contig, p, st, form in pts:
            want = brute_point(feats, contig, p, st)
            try:
                if form == 'pos':
                    got = fc.findFeaturesAt(contig, p, st)
                else:
                    got = fc.findFeaturesAt(chromosome=contig, lookupCoordinate=p, strand=st)
                nq += 1
                got = as_set(contig, got)
            except Exception as ex:
                viol.setdefault(f'{tag}:findFeaturesAt:exception:{type(ex).__name__}', {'q': (contig, p, st), 'ex': repr(ex)})
                continue
            if got != want:
                kind = 'missing-feature' if want - got else 'extra-feature'
                viol.setdefault(f'{tag}:findFeaturesAt:{kind}',
                                {'q': (contig, p, st), 'got': sorted(got), 'want': sorted(want)})
        for contig, a, b, st in rngs:
            want = brute_range(feats, contig, a, b, st)
            try:
                got = as_set(contig, fc.findFeaturesBetween(contig, a, b, st))
                nq += 1
            except Exception as ex:
                viol.setdefault(f'{tag}:findFeaturesBetween:exception:{type(ex).__name__}', {'q': (contig, a, b, st), 'ex': repr(ex)})
                continue
            if got != want:
                kind = 'missing-feature' if want - got else 'extra-feature'
                viol.setdefault(f'{tag}:findFeaturesBetween:{kind}',
                                {'q': (contig, a, b, st), 'got': sorted(got), 'want': sorted(want)})
        for read, positions, desc in (reads if ri == last else ()):
            for st in (None, '+'):
                want = {f for f in feats if f[0] == 'chr1' and (st is None or f[4] == st)
                        and any(f[1] <= p <= f[2] for p in positions)}
                for method in ((0, 1) if st is None else (0,)):
                    try:
                        got = as_set('chr1', fc.findFeaturesAtPysamAlign(read, strand=st, method=method))
                        nq += 1
                    except Exception as ex:
                        viol.setdefault(f'{tag}:findFeaturesAtPysamAlign-method{method}:exception:{type(ex).__name__}',
                                        {'q': desc, 'ex': repr(ex)})
                        continue
                    if got != want:
                        kind = 'missing-feature' if want - got else 'extra-feature'
                        viol.setdefault(f'{tag}:findFeaturesAtPysamAlign-method{method}:{kind}',
                                        {'read': desc, 'strand': st, 'got': sorted(got), 'want': sorted(want)})
        if _cache_overflow():
            raise HarnessError('C16: memo filled up inside one history; evictions would blur staleness')
    return [(s, d) for s, d in viol.items()], nq


def run_molecule_level(C, add):
    """single-round history; FeatureAnnotatedMolecule.annotate(method 0/1) on every read of the alphabet"""
    from singlecellmultiomics.features import FeatureContainer
    from singlecellmultiomics.fragment import Fragment
    from singlecellmultiomics.molecule.featureannotatedmolecule import FeatureAnnotatedMolecule
    ls = letters(C)
    _, _, reads = queries(C)
    _cache_reset()
    fc = FeatureContainer()
    feats = set()
    try:
        for k, li in enumerate(add):
            contig, s, e, st = ls[li]
            fc.addFeature(contig, s, e, f'f{k}', strand=st, data=(('id', f'f{k}'),))
            feats.add((contig, s, e, f'f{k}', st))
        fc.sort()
    except Exception as ex:
        return [(f'round1:add-sort:exception:{type(ex).__name__}', repr(ex))], 0
    viol = {}
    n = 0
    for read, positions, desc in reads:
        for stranded in (None, False, True):
            for method in (0, 1):
                try:
                    frag = Fragment([read, None])
                    mol = FeatureAnnotatedMolecule(frag, features=fc, stranded=stranded, capture_locations=True)
                    mol.annotate(method=method)
                    got = set(mol.feature_locations.keys())
                    n += 1
                except Exception as ex:
                    viol.setdefault(f'annotate-method{method}:exception:{type(ex).__name__}', {'read': desc, 'ex': repr(ex)})
                    continue
                # read is forward: stranded False -> same strand '+', True -> '-'
                st = None if stranded is None else ('-' if stranded else '+')
                want = {f[3] for f in feats if f[0] == 'chr1' and (st is None or f[4] == st)
                        and any(f[1] <= p <= f[2] for p in positions)}
                if got != want:
                    kind = 'missing-feature' if want - got else 'extra-feature'
                    viol.setdefault(f'annotate-method{method}:{kind}',
                                    {'read': desc, 'stranded': stranded, 'got': sorted(got), 'want': sorted(want)})
    return [(s, d) for s, d in viol.items()], n


def _nested(C, rounds):
    ls = letters(C)
    ivs = [ls[i] for r in rounds for i in r if ls[i][0] == 'chr1']
    for x, y in itertools.combinations(ivs, 2):
        if (x[1] <= y[1] and y[2] <= x[2]) or (y[1] <= x[1] and x[2] <= y[2]):
            return True
    return False


def run_shard(shard, tier, acc):
    if shard[0] == 'histgroup':
        for s in shard[1]:
            _run_hist(s, tier, acc)
    elif shard[0] == 'mol':
        _, C, m = shard
        for add in multisets(C, m):
            case = {'kind': 'mol', 'C': C, 'add': list(add)}
            viols, n = run_molecule_level(C, add)
            acc.case(case, transitions=n, nontrivial=len(add) >= 2, outcome=f'mol:{len(add)}')
            for sig, d in viols:
                acc.violation(sig, case, d)


def _run_hist(s, tier, acc):
    _, ri, fi = s
    run = bounds(tier)['runs'][ri]
    C = run['C']
    first = multisets(C, run['rounds'][0])[fi]
    later = [multisets(C, m) for m in run['rounds'][1:]]
    for rest in itertools.product(*later):
        rounds = (first,) + tuple(rest)
        for mode in run['modes']:
            case = {'kind': 'hist', 'C': C, 'rounds': [list(r) for r in rounds], 'mode': mode}
            viols, nq = run_history(C, rounds, mode)
            nonempty = sum(1 for r in rounds if r)
            acc.case(case, transitions=nq, nontrivial=(nonempty >= 2 and _nested(C, rounds)),
                     outcome=f'rounds={nonempty},mode={mode},nested={_nested(C, rounds)}')
            for sig, d in viols:
                acc.violation(sig, case, d)


def replay(case):
    if case['kind'] == 'mol':
        return run_molecule_level(case['C'], tuple(case['add']))[0]
    return run_history(case['C'], tuple(tuple(r) for r in case['rounds']), case['mode'])[0]
