"""C16 oracle: brute-force interval overlap on the CURRENT feature multiset, written from the property text.

A feature is (contig, start, end, name, strand, open_end):
  * it contains point p          iff start <= p <= end                    (closed interval)
  * it overlaps range [a, b]     iff max(a, start) <= min(b, end)
  * it is overlapped by a read   iff one of the read's aligned reference bases lies in [start, end]
  * a query for strand s returns features of strand s only; a strand-less feature (strand None) is neither required nor
    forbidden in the answer of a stranded query (the property text leaves it open), and is required for strand None
  * open_end (BED-loaded features, half open in the file): base `end` itself is neither required nor forbidden
Every answer must satisfy  must <= answer <= may.
"""


def _strand_sets(f_strand, st):
    """-> (counts for must, counts for may)"""
    if st is None:
        return True, True
    if f_strand == st:
        return True, True
    if f_strand is None:
        return False, True
    return False, False


def key_of(f):
    contig, s, e, name, strand, open_end = f
    if open_end:
        return (contig, s, None, None, strand)
    return (contig, s, e, name, strand)


def expect_point(feats, contig, p, st):
    must, may = set(), set()
    for f in feats:
        if f[0] != contig or not (f[1] <= p <= f[2]):
            continue
        m, y = _strand_sets(f[4], st)
        if f[5] and p == f[2]:
            m = False
        if m:
            must.add(key_of(f))
        if y:
            may.add(key_of(f))
    return must, may


def expect_range(feats, contig, a, b, st):
    must, may = set(), set()
    for f in feats:
        if f[0] != contig or not (max(a, f[1]) <= min(b, f[2])):
            continue
        m, y = _strand_sets(f[4], st)
        if f[5] and not (max(a, f[1]) <= min(b, f[2] - 1)):
            m = False
        if m:
            must.add(key_of(f))
        if y:
            may.add(key_of(f))
    return must, may


_RUNS = {}


def runs(positions):
    """maximal runs of consecutive reference bases, as closed (lo, hi) pairs"""
    r = _RUNS.get(positions)
    if r is None:
        r = []
        for p in sorted(positions):
            if r and r[-1][1] == p - 1:
                r[-1][1] = p
            else:
                r.append([p, p])
        r = _RUNS[positions] = tuple((a, b) for a, b in r)
    return r


def expect_read_all(feats, contig, positions, deleted):
    """-> {strand: (must, may)} for strand in None, '+', '-'"""
    out = {None: (set(), set()), '+': (set(), set()), '-': (set(), set())}
    blocks, dels = runs(positions), runs(deleted)
    for f in feats:
        if f[0] != contig:
            continue
        s, e = f[1], f[2]
        hi_must = e - 1 if f[5] else e
        in_must = any(max(a, s) <= min(b, hi_must) for a, b in blocks)
        if not in_must and not any(max(a, s) <= min(b, e) for a, b in blocks) and not any(max(a, s) <= min(b, e) for a, b in dels):
            continue
        k = key_of(f)
        for st, (must, may) in out.items():
            m, y = _strand_sets(f[4], st)
            if m and in_must:
                must.add(k)
            if y:
                may.add(k)
    return out


def expect_read(feats, contig, positions, deleted, st):
    return expect_read_all(feats, contig, positions, deleted)[st]


def verdict(got, must, may):
    """-> None | 'missing-feature' | 'extra-feature' (missing first, as before)"""
    if must - got:
        return 'missing-feature'
    if got - may:
        return 'extra-feature'
    return None


def show(keys):
    return sorted(keys, key=repr)


# ------------------------------------------------------------------ expected content of a file-loaded container
def gtf_expected(recs, fields, select=None, offset=-1, contig=None, region=None):
    """GTF is 1-based closed; the loader shifts by `offset` (default -1 -> 0-based closed).  `select`: feature types kept;
    contig / region (closed, container coordinates): only features of that contig overlapping the region are loaded."""
    out = []
    for r in recs:
        if select is not None and r['type'] not in select:
            continue
        if contig is not None and r['contig'] != contig:
            continue
        s, e = r['start1'] + offset, r['end1'] + offset
        if region is not None and (e < region[0] or s > region[1]):
            continue
        name = None if fields is None else ','.join(r['attrs'][f] for f in fields if f in r['attrs'])
        out.append((r['contig'], s, e, name, r['strand'], False))
    return out


def bed_expected(recs):
    """one feature per line, or per block of a 12-column line (block start is relative to the line's start)"""
    out = []
    for contig, s, e, name, strand, ncol, blocks in recs:
        if blocks is None:
            out.append((contig, s, e, None, strand, True))
        else:
            for rel, size in blocks:
                out.append((contig, s + rel, s + rel + size, None, strand, True))
    return out
