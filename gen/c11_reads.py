"""Abstract reads and option sets for C11, and their translation to the real objects.

A read is a dict (the oracle only ever sees this dict); `to_pysam` builds the pysam.AlignedSegment from it.
The space: every read that differs from the plain good read BASE in at most 2 attributes (ALTS), minus incoherent
combinations (an unpaired read has no mate bits; an unmapped read has no CIGAR / MAPQ / proper bit / secondary bit).
Option sets: all assignments of DIMS within a given distance of the default (distance = number of changed options).

CORE_ALTS / CORE_DIMS name the letters of the first version of this check; the thorough tier still takes the FULL
product of the core option values over the core reads, the letters added later are enumerated within a distance bound
(see props/c11.py).  Letters added by the audit:
  reads    contig chr3 (absent from blacklist and BED), positions that touch a blacklist interval / BED region from
           outside (390 ends where both start, 500 starts where both end) and from inside (400, 490), secondary /
           supplementary alignments, an empty XA tag, a float by-value value, feature values holding the default / another
           delimiter, the barcode-index tag under its old and new name (BI / bi / both), the bin tag DS (incl. 0)
  options  --splitFeatures, -featureDelimiter, feature modes: one joined tag, tag / alias / attribute lookups (joined and
           single), joined + -bin
"""
import itertools

CONTIGS = [('chr1', 1000), ('chr2', 1000), ('chr3', 1000)]      # chr3: in no blacklist interval, in no BED region
CONTIG_NAMES = [c for c, _ in CONTIGS]
BED = [('chr1', 100, 200, 'regA'), ('chr1', 400, 500, 'regB'), ('chr2', 100, 200, 'regC')]
# deliberately NOT coordinate sorted (a BED file need not be): decoy intervals far from every read precede and follow the hitting one
BLACKLIST = {'chr1': [(900, 950), (400, 500), (10, 20)], 'chr2': [(880, 890), (650, 750)]}

BASE = {'role': 'R1', 'qcfail': False, 'dup': False, 'RR': False, 'mapq': 60, 'proper': True, 'mate_unmapped': False,
        'unmapped': False, 'cigar': '10M', 'NM': 0, 'XA': None, 'NH': None, 'mp': 'unique', 'SM': 'A', 'XT': 'g1',
        'RC': 1, 'contig': 0, 'pos': 120, 'aln': 'primary', 'bi': 'BI', 'DS': 120}
BI_VALUE, bi_VALUE = 7, 8       # values of the BI / bi tag where present (rd['bi'] in BI | bi | both)
BIN = 100                       # -bin of the feature mode joined+bin

# simplest alternatives first
ALTS = [
    ('role', ['R2', 'single']),
    ('qcfail', [True]),
    ('dup', [True]),
    ('RR', [True]),
    ('mapq', [0, 29, 30]),
    ('proper', [False]),
    ('mate_unmapped', [True]),
    ('unmapped', [True]),
    ('cigar', ['4M1I5M', '5M1D5M', '2S8M', '8M2S']),
    ('NM', [1, 2, None]),
    ('XA', ['chr2,+3,10M,0;', 'chr1_alt,+3,10M,0;', 'chr1_alt,+3,10M,0;chr2,-7,10M,1;', '']),   # '': present but empty
    ('NH', [1, 3]),
    ('mp', ['bad', None]),
    ('SM', ['B']),
    ('XT', ['g2', 0, 'g1,g2', 'g3;g4']),      # 0: a present but falsy feature value; values holding a delimiter
    ('RC', [3, 2.5]),
    ('contig', [1, 2]),
    # 420 / 700: inside BED regB + blacklist (chr1) / inside a blacklist interval (chr2); 390 and 500: outside, touching
    # chr1:400-500 (blacklist interval and BED region) on either side; 400 and 490: inside, touching its two ends
    ('pos', [420, 700, 390, 500, 400, 490]),
    ('aln', ['secondary', 'supplementary']),
    ('bi', ['bi', 'both']),
    ('DS', [0, 250]),
]
CORE_ALTS = {'role': ['R2', 'single'], 'qcfail': [True], 'dup': [True], 'RR': [True], 'mapq': [0, 29, 30],
             'proper': [False], 'mate_unmapped': [True], 'unmapped': [True], 'cigar': ['4M1I5M', '5M1D5M', '2S8M', '8M2S'],
             'NM': [1, 2, None], 'XA': ['chr2,+3,10M,0;', 'chr1_alt,+3,10M,0;', 'chr1_alt,+3,10M,0;chr2,-7,10M,1;'],
             'NH': [1, 3], 'mp': ['bad', None], 'SM': ['B'], 'XT': ['g2', 0], 'RC': [3], 'contig': [1],
             'pos': [420, 700]}


def _coherent(changes):
    ch = dict(changes)
    if ch.get('role') == 'single' and ('proper' in ch or 'mate_unmapped' in ch):
        return False
    if 'unmapped' in ch and ('mapq' in ch or 'cigar' in ch or 'proper' in ch or 'aln' in ch):
        return False
    if 'mate_unmapped' in ch and 'proper' in ch:
        return False
    return True


def _normalise(rd):
    if rd['role'] == 'single':
        rd['proper'] = False
        rd['mate_unmapped'] = False
    if rd['mate_unmapped'] or rd['unmapped']:
        rd['proper'] = False
    if rd['unmapped']:
        rd['mapq'] = 0
    return rd


def all_reads(max_changes=2):
    """[(changes, read dict)] - deterministic order, simplest first; every read gets its index as 'ri'."""
    out = []
    singles = [(a, v) for a, vals in ALTS for v in vals]
    combos = [()]
    for k in range(1, max_changes + 1):
        for c in itertools.combinations(singles, k):
            if len(set(a for a, _ in c)) == k and _coherent(c):
                combos.append(c)
    for i, c in enumerate(combos):
        rd = dict(BASE)
        for a, v in c:
            rd[a] = v
        _normalise(rd)
        rd['ri'] = f'r{i:04d}'
        rd['core'] = all(v in CORE_ALTS.get(a, ()) for a, v in c)
        rd['changed'] = [a for a, _ in c]
        out.append(rd)
    return out


def never_ambiguous(rd):
    """reads whose treatment the documentation settles under EVERY option set"""
    if rd['role'] == 'single' or rd['NM'] is None or rd['mp'] not in ('unique', 'bad'):
        return False
    if rd['XA'] is not None and rd['NH'] is not None:
        n = len([e for e in rd['XA'].split(';') if e]) + 1
        if n != rd['NH']:
            return False
    # a read lying partly in a blacklist interval / BED region (a deletion makes it one base longer)
    if not rd['unmapped']:
        from oracles.c11_oracle import ref_span
        a, b = rd['pos'], rd['pos'] + ref_span(rd['cigar'])
        cname = CONTIG_NAMES[rd['contig']]
        ivs = list(BLACKLIST.get(cname, ())) + [(s, e) for c, s, e, _ in BED if c == cname]
        if any(a < e and s < b and not (s <= a and b <= e) for s, e in ivs):
            return False
    return True


def to_pysam(rd, hdr, contig_index_of=None):
    from gen import c10_counttable as G
    tags = [('SM', rd['SM']), ('XT', rd['XT']), ('RC', rd['RC']), ('ri', rd['ri']), ('DS', rd['DS'])]
    if rd['bi'] in ('BI', 'both'):
        tags.append(('BI', BI_VALUE))
    if rd['bi'] in ('bi', 'both'):
        tags.append(('bi', bi_VALUE))
    if rd['NM'] is not None:
        tags.append(('NM', rd['NM']))
    if rd['XA'] is not None:
        tags.append(('XA', rd['XA']))
    if rd['NH'] is not None:
        tags.append(('NH', rd['NH']))
    if rd['mp'] is not None:
        tags.append(('mp', rd['mp']))
    if rd['RR']:
        tags.append(('RR', 'NoCutSite'))
    paired = rd['role'] != 'single'
    ci = rd['contig'] if contig_index_of is None else contig_index_of(rd['contig'])
    return G.mk_read(hdr, 'q' + rd['ri'], contig_index=ci, pos=rd['pos'], cigar=rd['cigar'], mapq=rd['mapq'],
                     tags=tags, paired=paired, read2=(rd['role'] == 'R2'), proper=(rd['proper'] if paired else False),
                     mate_unmapped=rd['mate_unmapped'], unmapped=rd['unmapped'], qcfail=rd['qcfail'],
                     duplicate=rd['dup'], reverse=(rd['role'] == 'R2'), mate_pos=rd['pos'],
                     secondary=(rd['aln'] == 'secondary'), supplementary=(rd['aln'] == 'supplementary'))


# ------------------------------------------------------------------------------------------------ options

BOOLS = ['r1only', 'r2only', 'filterMP', 'proper_pairs_only', 'no_indels', 'no_softclips', 'filterXA', 'dedup',
         'divideMultimapping', 'doNotDivideFragments', 'blacklist']
# feature modes (what they put on the command line: FEATURE_ARGS below)
FEATURE_MODES = ['joined', 'single', 'joined+byValue', 'joined1', 'joined+lookup', 'single+lookup', 'joined+bin']
DIMS = [(b, [False, True]) for b in BOOLS] + [('minMQ', [0, 30]), ('max_base_edits', [None, 1, 0]),
                                              ('features', FEATURE_MODES),
                                              # ONE dimension for (--splitFeatures, -featureDelimiter): a single step from
                                              # the default reaches the non-default delimiter in use
                                              ('split', [(False, ','), (True, ','), (True, ';'), (False, ';')])]
COMPOUND = {'split': ('splitFeatures', 'featureDelimiter')}
OPT_KEYS = [k for d, _ in DIMS for k in COMPOUND.get(d, (d,))]


def _expand(o):
    """{dimension: value} -> the option set as the check and the oracle use it (compound dimensions spread out)"""
    out = {}
    for d, _ in DIMS:
        if d in COMPOUND:
            out.update(zip(COMPOUND[d], o[d]))
        else:
            out[d] = o[d]
    return out


def _dim_value(opt, d):
    return tuple(opt[k] for k in COMPOUND[d]) if d in COMPOUND else opt[d]


DEFAULT = _expand({d: vals[0] for d, vals in DIMS})

# the option values of the first version of this check (their FULL product is still taken in the thorough tier)
CORE_VALUES = {'features': ['joined', 'single', 'joined+byValue'], 'splitFeatures': [False], 'featureDelimiter': [',']}


def is_core(opt):
    return all(opt[d] in vals for d, vals in CORE_VALUES.items())


def generated(opt):
    """--splitFeatures with -byValue is refused by the program in so many words (NotImplementedError 'By value is not
    implemented for --splitFeatures'): not part of the space"""
    return not (opt['splitFeatures'] and opt['features'] == 'joined+byValue')


def distance(opt):
    return sum(1 for d, vals in DIMS if _dim_value(opt, d) != vals[0])


def option_sets(max_distance, fixed=None, core_max_distance=None):
    """every option set within max_distance of the default (optionally with some options fixed), and every CORE option
    set within core_max_distance (>= max_distance) if given; simplest first"""
    fixed = fixed or {}
    core_max_distance = max_distance if core_max_distance is None else core_max_distance
    free = [(d, vals) for d, vals in DIMS if d not in fixed]
    first = {d: vals[0] for d, vals in DIMS}
    base_d = sum(1 for d, v in fixed.items() if v != first[d])
    out = []
    for combo in itertools.product(*[range(len(vals)) for _, vals in free]):
        dist = base_d + sum(1 for i in combo if i)
        if dist > core_max_distance:
            continue
        opt = dict(fixed)
        for (d, vals), i in zip(free, combo):
            opt[d] = vals[i]
        opt = _expand(opt)
        if dist > max_distance and not is_core(opt):
            continue
        if not generated(opt):
            continue
        out.append((dist, opt))
    out.sort(key=lambda t: t[0])
    return [{k: o[k] for k in OPT_KEYS} for _, o in out]


# feature mode -> (joined?, tag list on the command line, -byValue, -bin)
FEATURE_ARGS = {
    'joined': (True, 'XT,chrom', None, None),
    'single': (False, 'XT,chrom', None, None),
    'joined+byValue': (True, 'XT,chrom', 'RC', None),
    'joined1': (True, 'XT', None, None),                              # a joined key of ONE tag
    'joined+lookup': (True, 'BI,bi,mapping_quality,XT', None, None),     # tag / renamed tag both ways / read attribute
    'single+lookup': (False, 'bi,mapping_quality', None, None),
    'joined+bin': (True, 'XT', None, BIN),                            # the bin tag (DS) is appended by the program
}


def feature_tags(opt):
    """(joinFeatures, feature tag list) the way create_count_table derives them from the command line: the by-value tag
    and the bin tag are appended to the joined tags when not listed"""
    joined, tags, by_value, bin_ = FEATURE_ARGS[opt['features']]
    tags = tags.split(',')
    if joined and by_value is not None and by_value not in tags:
        tags.append(by_value)
    if bin_ is not None and 'DS' not in tags:
        tags.append('DS')
    return joined, tags


def feature_args(opt):
    """command-line arguments of the feature modes"""
    joined, tags, by_value, bin_ = FEATURE_ARGS[opt['features']]
    return {'featureTags': None if joined else tags, 'joinedFeatureTags': tags if joined else None,
            'byValue': by_value, 'bin': bin_}


def make_args(opt, level1=False, **extra):
    from gen import c10_counttable as G
    kw = {k: opt[k] for k in BOOLS if k != 'blacklist'}
    kw['minMQ'] = opt['minMQ']
    kw['max_base_edits'] = opt['max_base_edits']
    kw['splitFeatures'] = opt['splitFeatures']
    kw['featureDelimiter'] = opt['featureDelimiter']
    kw.update(feature_args(opt))
    kw.update(extra)
    ns = G.default_args(**kw)
    if level1 and ns.bin is not None:
        # what create_count_table sets up before it calls assignReads
        ns.sliding = ns.bin
        ns.ref_lengths = dict(CONTIGS)
    return ns


# the same blacklist keyed by contig INDEX: the form the oracle (which only knows abstract reads) uses
BLACKLIST_IDX = {CONTIG_NAMES.index(c): v for c, v in BLACKLIST.items()}
