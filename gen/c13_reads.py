"""In-memory read / fragment construction shared by the C13 and C15 checks.

A *read description* is a plain JSON-able dict

    {'start': int, 'cigar': [[op, len], ...] | None, 'seq': str, 'quals': [int, ...], 'reverse': bool}

(op codes as in SAM: 0=M 1=I 2=D 3=N 4=S 5=H 6=P 7='=' 8=X).  `build_read` turns it into a pysam.AlignedSegment with an MD
tag computed here from the reference string (pysam needs it for get_aligned_pairs(with_seq=True)).
`aligned_pairs` is this module's own CIGAR walk (the oracles use it; they never ask pysam or the code
under test where a base aligns).
"""
import pysam

CONTIG = 'chr1'
_HEADER_CACHE = {}


def header(length):
    h = _HEADER_CACHE.get(length)
    if h is None:
        h = pysam.AlignmentHeader.from_references([CONTIG, 'chr2'], [length, length])
        _HEADER_CACHE[length] = h
    return h


def norm_cigar(rd):
    c = rd.get('cigar')
    if c is None:
        return [(0, len(rd['seq']))]
    return [(int(op), int(n)) for op, n in c]


def aligned_pairs(rd):
    """[(query_index, reference_position)] of the aligned (M) bases of a read description."""
    q = 0
    r = rd['start']
    out = []
    for op, n in norm_cigar(rd):
        if op in (0, 7, 8):
            for _ in range(n):
                out.append((q, r))
                q += 1
                r += 1
        elif op in (1, 4):
            q += n
        elif op in (2, 3):
            r += n
        elif op in (5, 6):
            pass                    # hard clip / padding: consume neither query nor reference
        else:
            raise ValueError(op)
    return out


def reference_end(rd):
    r = rd['start']
    for op, n in norm_cigar(rd):
        if op in (0, 2, 3, 7, 8):
            r += n
    return r


def md_tag(ref, rd):
    """MD string for a read description against the reference string `ref` (SAM spec)."""
    out = []
    run = 0
    q = 0
    r = rd['start']
    seq = rd['seq']
    for op, n in norm_cigar(rd):
        if op in (0, 7, 8):
            for _ in range(n):
                if seq[q].upper() == ref[r].upper():
                    run += 1
                else:
                    out.append(str(run))
                    out.append(ref[r].upper())
                    run = 0
                q += 1
                r += 1
        elif op in (1, 4):
            q += n
        elif op == 2:
            out.append(str(run))
            out.append('^' + ref[r:r + n].upper())
            run = 0
            r += n
        elif op == 3:
            r += n
    out.append(str(run))
    return ''.join(out)


def build_read(ref, rd, name, is_read1, paired, tags, mapq=60):
    read = pysam.AlignedSegment(header(len(ref)))
    read.query_name = name
    read.reference_name = CONTIG
    read.reference_start = rd['start']
    read.query_sequence = rd['seq']
    read.query_qualities = pysam.qualitystring_to_array(''.join(chr(33 + q) for q in rd['quals']))
    read.cigartuples = norm_cigar(rd)
    read.mapping_quality = mapq
    read.is_reverse = bool(rd['reverse'])
    read.is_read1 = bool(is_read1)
    read.is_read2 = not is_read1
    if paired:
        read.is_paired = True
        read.is_proper_pair = True
    for k, v in tags.items():
        read.set_tag(k, v)
    read.set_tag('MD', md_tag(ref, rd))
    return read


def build_reads(ref, frag, name, tags, mapq=60, single_as_pair=True):
    """frag = {'r1': read description, 'r2': read description or None} -> [R1, R2]; a single-end fragment is
    [R1, None] (what the mate-pair iterators of the package produce) or, with single_as_pair=False, the
    one-element list [R1] of the Fragment class docstring."""
    r1, r2 = frag['r1'], frag.get('r2')
    paired = r2 is not None
    reads = [build_read(ref, r1, name, True, paired, tags, mapq)]
    if paired:
        reads.append(build_read(ref, r2, name, False, True, tags, mapq))
    elif single_as_pair:
        reads.append(None)
    return reads
