"""C12 - binned molecule counting is independent of how the genome is split into jobs (and of the schedule).

Seams   generate_commands -> count_fragments_binned -> obtain_counts(live_update=False)   and
        get_binned_counts(regions=None), on the real bamBinCounts module; the module's Pool is replaced
        by mc.sched.ScheduledPool (in-process, completion order chosen here, arguments and results through a
        pickle round trip).  Nothing else is changed except that AlignmentFile(threads=4) is opened without
        htslib decompression threads (3.9 ms of thread start per job body; no influence on the records read).
Space   tagged BAMs from gen/c12_bam.py (3-4 contigs, 3 cells, DS on every multiple of 50 and +-1, at 0/1 and at
        the last two bases of every contig, sites at / D bases beside the read on both sides and strands, allele
        tag DA, plus records that must not be counted: duplicate, QC-fail(+RR), read 2, MAPQ below threshold /
        0, mp != unique; and countable specials: MAPQ at the threshold, mp == unique, not-proper pair)
        x bin size {50,100,250} x bins-per-job 1..N (N = bins on the longest contig)
        x max_fragment_size D in {read length 20, 100, 1000} (BAM built for D: every site within D of its read,
          some exactly D) x key_tags {None, ['DA']} x EVERY completion order of the jobs (<= 5 jobs; thorough <= 6)
          or every order within 2 (thorough 3) adjacent swaps of submission order plus the reversal.
        + 'default-options' cases: generate_commands(path, bin_size, bins_per_job) with every other option at its
          default, the way bamMutProfiler / vcfMutProfiler / the module's __main__ call it.
        + 'edge' BAMs: read-1 records whose DS lies just outside the contig (what the CHiC tagger writes for a
          read touching a contig end); no bin contains such a site, so ONLY the invariance clause is demanded:
          the matrix must be the same for every bins-per-job and order (reference: 1 bin per job, submission order).
        + get_binned_counts: bin sizes x n_threads {None,1,4} x every execution order of the per-contig jobs,
          filter_function = the module's read_counts configured as the property words the filter.
        + conformance: free-running runs with the real multiprocessing.Pool in a fresh interpreter (gen/c12_run.py),
          compared with the oracle and with the scheduled result.
        + options (ext BAMs: the core records plus records WITHOUT an SM tag, read 2 of a discordant pair, complete
          pairs, MAPQ threshold+1 / 255, mp bad / unknown, records with two reasons not to count): every
          (bin size, bins per job) x option set of generate_commands / obtain_counts - dedup=False, kwargs ignore_mp,
          both, min_mq None / 0, two key tags, a one-element path list, an explicit count_function, skip_contigs
          (first / last as a set / two / all / unknown name / empty / with allele tag), head (1, 2, exactly all jobs,
          more), alt_spans (one / two contigs / unknown name) - x {submission, reversed} order (thorough: + <=1 swap
          and max_fragment_size 0 / 20 / 1000).  head < all jobs: only "never more than the full matrix" is
          demanded; alt_spans: the remapped contigs are only required to keep every record once per cell and to give
          the same matrix for every bins-per-job / order (reference: 1 bin per job), the other contigs exactly.
        + 'nods' BAMs: records WITHOUT a DS tag (read starting / ending on every special boundary, both strands):
          counted once for their cell on their contig, bin not stated, same matrix for every bins-per-job / order.
        + several libraries in ONE call with unnamed records in one / in both of them (+ same cells / one shared
          cell), key tags None / ['DA'], submission, reversed and <=1-swap orders.
        + get_binned_counts and get_binned_counts_prefixed: filter_function given (as above) / NOT given (the way
          bamToBigWig calls it) x regions {None, contig names reversed / one / two, one coordinate region,
          coordinate region + name + (contig, None, None)} x files {1, 2 disjoint cells, 2 same cells, 2 one shared cell} (prefixed: one
          alias for all files / one per file / one file under two aliases).
        + the installed script bamBinCounts.py in its own interpreter (-bin_size -j -t -min_mq -max_fragment_size
          -head; dict and DataFrame output).
        + read_counts as a truth table: {read1, read2, unpaired} x qcfail x duplicate x mp {absent, unique, multi} x
          MAPQ {0, t-1, t, t+1}  x  min_mq {t, None, 0} x dedup x read1_only x ignore_mp x ignore_qcfail.
Oracle  oracles/c12_oracle.py: direct count over the BAM records (until_eof), from the property text; for the
        extension expected_general / judge_general (must-count, may-count and bin-not-stated records).
"""
import atexit
import contextlib
import io
import json
import os
import shutil
import subprocess
import sys
import tempfile

from mc import bind, sched

ID = 'C12'
DESIGN_REF = 'DESIGN.md section 3, C12; section 4 lead 18'
RULE = ('one case = one complete run of the real counter (generate_commands -> obtain_counts, or get_binned_counts) '
        'for one (BAM, bin size, bins per job, max fragment size, key tags, completion order); all completion orders '
        'of the job set are enumerated when it has <= full_upto jobs, else every order within `swaps` adjacent swaps '
        'of submission order plus the reversal; transitions = job bodies executed. A case is non-trivial when at '
        'least one contig is split into >= 2 jobs (so records with sites on, and one base beside, a job boundary and '
        'records fetched by two neighbouring jobs exist) and the order is not the submission order, or it is a '
        'conformance run with the real Pool. Cases of the extension (they carry `mode`): one run of an entry point for '
        'one option set / region set / file set / order, non-trivial when the results of >= 2 jobs are merged; a run '
        'of the installed script (always non-trivial); one call of read_counts (non-trivial when the record has at '
        'least one reason not to be counted)')
ASSUMPTIONS = [
    'every counted record carries DS and SM; |DS - aligned span| <= max_fragment_size (each BAM is built for the '
    'max_fragment_size it is counted with; the bound is tight for some records)',
    'core BAMs: 0 <= DS < contig length. Edge BAMs (DS in {-2,-1,length,length+1}) are only required to give the '
    'same matrix for every bins-per-job and schedule, not to be counted in any particular bin',
    '"passing the mapping-quality threshold" means MAPQ >= min_mq (the CLI help says "Minimum mapping quality"); '
    '"rejected" means the QC-fail flag (how rejected molecules are written)',
    'options that select records keep the meaning their names give them: dedup=False counts duplicates too, '
    'kwargs ignore_mp counts records marked as not unique too, min_mq None / 0 is no threshold, skip_contigs leaves '
    'the named contigs out (and nothing else). What `head` keeps and where alt_spans puts a remapped site is NOT '
    'stated: with head only "no count above the full matrix" (and the full matrix when head >= number of jobs), with '
    'alt_spans only "every record once per cell" and invariance under bins-per-job / order are demanded for them',
    'a record without SM belongs to an unnamed cell: all such records form one extra column whose name is free; a '
    'record without DS is counted once for its cell on its contig, in a bin the property does not state (but the same '
    'one for every job split); several input files: the counts of a cell name occurring in more than one file add up',
    'get_binned_counts / get_binned_counts_prefixed called WITHOUT filter_function (as bamToBigWig does): read 1, '
    'duplicate and QC-fail are decided by the property; nothing configures a threshold there, so whether records '
    'with MAPQ < 60 or an mp mark are counted is left open (0 or 1 times). The prefixed form has no default cell '
    'name and is only given records with SM. Regions with coordinates: only records whose site and aligned bases lie '
    'inside [start, end) must be counted, every other record of that contig may be counted once or not at all',
    'bin identity: a bin is named by (key tag values, contig, bin start); a reported bin end must be start+bin size '
    'or that clipped to the contig length',
    'get_binned_counts has no filter of its own for MAPQ / mp; it is run with filter_function = read_counts(min_mq, '
    'read1_only) so that it is asked for the matrix the property describes',
    'job bodies run in-process without htslib decompression threads; the free-running conformance runs keep them',
]

READ_LEN = 20
BIN_SIZES = (50, 100, 250)
KWARGS = {'ignore_mp': False, 'ignore_qcfail': False}      # what bamCopyNumber passes by default

_DIR = None
_BAMS = {}        # tuple(spec) -> path
_PARENT = None


# ------------------------------------------------------------------------------------------------ bounds

def bounds(tier):
    if tier == 'quick':
        return {'layouts': [0], 'bin_sizes': list(BIN_SIZES), 'bins_per_job': '1..bins on the longest contig',
                'max_fragment_size': [READ_LEN, 100, 1000], 'key_tags': [None, ['DA']], 'min_mq': [50],
                'full_upto': 5, 'swaps': 2, 'edge_max_fragment_size': [1000], 'edge_orders': 'submission, reversed',
                'get_binned_counts_threads': [None, 1, 4], 'conformance_threads': [3],
                'contigs': _layouts([0]), **_bounds2('quick')}
    return {'layouts': [0, 1], 'bin_sizes': list(BIN_SIZES), 'bins_per_job': '1..bins on the longest contig',
            'max_fragment_size': [READ_LEN, 100, 1000], 'key_tags': [None, ['DA']], 'min_mq': [50, 1],
            'full_upto': 6, 'swaps': 3, 'edge_max_fragment_size': [READ_LEN, 100, 1000],
            'edge_orders': 'submission, reversed, <=1 swap', 'get_binned_counts_threads': [None, 1, 4],
            'conformance_threads': [1, 3], 'contigs': _layouts([0, 1]), **_bounds2('thorough')}


def _bounds2(tier):
    quick = tier == 'quick'
    return {
        'options_max_fragment_size': [100] if quick else [0, READ_LEN, 100, 1000],
        'options': [n for n, _, _, _ in _opt_sets(0, 50, 1)],
        'options_orders': 'submission, reversed' if quick else 'submission, reversed, <=1 adjacent swap (first 6)',
        'records_without_DS_max_fragment_size': [100] if quick else [READ_LEN, 100, 1000],
        'two_libraries': [n for n, _ in MULTI],
        'two_libraries_orders': 'submission, reversed, <=1 adjacent swap (first 6)',
        'get_binned_counts_extension': 'filter {property, default (none given)} x regions {None, contig names '
                                       'reversed / one / two, one coordinate region, coordinate region + name} x files '
                                       '{1, 2 disjoint cells, 2 same cells, 2 one shared cell}; the prefixed form with '
                                       'one alias for all files / one alias per file / one file under two aliases',
        'installed_script': [c['opt'] for c in _cli_cases(tier)],
        'read_counts_table': {'records': len(_rc_records()), 'option_sets': len(_rc_options())},
    }


def _layouts(idx):
    from gen import c12_bam as G
    return {str(i): G.LAYOUTS[i] for i in idx}


def _nbins(layout, bin_size):
    from gen import c12_bam as G
    longest = max(l for _, l in G.LAYOUTS[layout])
    return -(-longest // bin_size)


def _all_specs():
    out = []
    for layout in (0, 1):
        for D in (READ_LEN, 100, 1000):
            for mq in (50, 1):
                for variant in ('core', 'edge', 'ext', 'nods'):
                    out.append((variant, D, mq, layout))
        for mq in (50, 1):
            out.append(('sparse', 100, mq, layout))
            out.append(('sparse', 1000, mq, layout))
            out.append(('ext', 0, mq, layout))
            out.append(('extsm', 1000, mq, layout))
    # second libraries (same records, cells renamed / partly renamed / not renamed)
    for layout in (0, 1):
        for lib in ('L2all', 'L2B', 'L2none'):
            out.append(('ext', 100, 50, layout, lib))
            out.append(('ext', 1000, 50, layout, lib))
            out.append(('extsm', 1000, 50, layout, lib))
        out.append(('core', 100, 50, layout, 'L2all'))
    return out


# ------------------------------------------------------------------------------------------------ setup

def _cleanup():
    global _DIR
    if _DIR and os.getpid() == _PARENT:
        shutil.rmtree(_DIR, ignore_errors=True)
        _DIR = None


def setup():
    """Build every BAM once, in the parent, before the workers fork."""
    global _DIR, _PARENT
    from singlecellmultiomics.bamProcessing import bamBinCounts as B
    for name in ('generate_jobs', 'generate_commands', 'count_fragments_binned', 'read_counts', 'obtain_counts',
                 'get_binned_counts', '_generate_count_dict', 'multiprocessing', 'pysam'):
        bind.seam(B, name)
    if _DIR is None:
        _PARENT = os.getpid()
        _DIR = tempfile.mkdtemp(prefix='c12_', dir='/dev/shm')
        atexit.register(_cleanup)
    from gen import c12_bam as G
    for spec in _all_specs():
        if spec not in _BAMS:
            path = os.path.join(_DIR, 'bam_' + '_'.join(str(x) for x in spec) + '.bam')
            G.write_bam(list(spec), path)
            _BAMS[spec] = path


def _bam(spec):
    spec = tuple(spec)
    if spec not in _BAMS:
        setup()
    if spec not in _BAMS:
        raise bind.HarnessError(f'unknown BAM spec {spec!r}')
    return _BAMS[spec]


# ------------------------------------------------------------------------------------------------ shards

def shards(tier):
    b = bounds(tier)
    out = []
    for layout in b['layouts']:
        for mq in b['min_mq']:
            for bin_size in b['bin_sizes']:
                for bpj in range(1, _nbins(layout, bin_size) + 1):
                    for D in b['max_fragment_size']:
                        for kt in b['key_tags']:
                            out.append(('oc', layout, mq, bin_size, bpj, D, kt))
                for D in b['edge_max_fragment_size']:
                    out.append(('edge', layout, mq, bin_size, D))
                for D in ([100] if tier == 'quick' else [100, 1000]):
                    out.append(('sparse', layout, mq, bin_size, D))
                out.append(('gbc', layout, mq, bin_size))
            if mq == 50:                        # the default threshold of generate_commands: one BAM family only
                out.append(('defaults', layout, mq))
    out.append(('conformance',))
    out.append(('hist',))
    b2 = _bounds2(tier)
    for layout in b['layouts']:
        for mq in b['min_mq']:
            for bin_size in b['bin_sizes']:
                for bpj in range(1, _nbins(layout, bin_size) + 1):
                    for D in b2['options_max_fragment_size']:
                        out.append(('ocx', layout, mq, bin_size, bpj, D))
                for D in b2['records_without_DS_max_fragment_size']:
                    out.append(('nods', layout, mq, bin_size, D))
                out.append(('gbx', layout, mq, bin_size))
        for bin_size in b['bin_sizes']:
            out.append(('multi', layout, bin_size))
    for i in range(len(_cli_cases(tier))):
        out.append(('cli', i))
    out.append(('rc',))
    # biggest job sets first: better packing on the worker pool
    out.sort(key=lambda s: (0 if s[0] == 'oc' and s[4] == 1 else 1))
    return out


# ------------------------------------------------------------------------------------------------ running the real code

class _PysamShim:
    """module attribute `pysam` of bamBinCounts: AlignmentFile without htslib worker threads"""

    def __init__(self, real):
        self._real = real

    def AlignmentFile(self, *a, **k):
        k.pop('threads', None)
        return self._real.AlignmentFile(*a, **k)

    def __getattr__(self, name):
        return getattr(self._real, name)


@contextlib.contextmanager
def _scheduled(order):
    from singlecellmultiomics.bamProcessing import bamBinCounts as B
    import pysam as real_pysam
    sch = sched.Schedule(order=order, isolate=True)
    cur = bind.seam(B, 'pysam')
    if cur is not real_pysam and not isinstance(cur, _PysamShim):
        raise bind.HarnessError('seam-missing bamBinCounts.pysam is not the pysam module')
    B.pysam = _PysamShim(real_pysam)
    try:
        with sched.patched(B, sch, names=('Pool', 'multiprocessing')):
            yield sch
    finally:
        B.pysam = cur


def _run_scheduled(case):
    """-> (matrix or None, exception or None, schedule)"""
    from gen import c12_run
    path = _bam(case['bam'])
    with _scheduled(case.get('order')) as sch:
        try:
            got = c12_run.call(case, path)
            err = None
        except bind.HarnessError:
            raise
        except Exception as e:
            got, err = None, e
    return got, err, sch


def _canon_to_matrix(got, n_tags):
    """canonical rows -> ({key-without-end: {cell: n}}, [(key, why)] malformed keys)"""
    m = {}
    bad = []
    for key, row in got:
        key = tuple(key)
        if len(key) == n_tags + 3:
            short = key[:-1]
        elif len(key) == n_tags + 2:
            short = key
        else:
            bad.append((key, 'key-shape'))
            continue
        r = m.setdefault(short, {})
        for cell, n in row:
            r[cell] = r.get(cell, 0) + n
    return m, bad


_EXPECT = {}
_EXPLAIN = {}


def _expected(spec, bin_size, min_mq, key_tags):
    from oracles import c12_oracle as O
    k = (tuple(spec), bin_size, min_mq, tuple(key_tags or ()))
    if k not in _EXPECT:
        _EXPECT[k] = O.expected(_bam(spec), bin_size, min_mq, key_tags)
    return _EXPECT[k]


def _lengths(spec):
    from gen import c12_bam as G
    return dict(G.LAYOUTS[spec[3]])


def _explain(spec, bin_size, min_mq, key_tags, got_matrix):
    """Best-effort EXPLANATION of a discrepancy for the detail field: every hypothesis "all records of kind K are
    counted f times" (f in 0..3) whose what-if matrix equals the observed one (several kinds may share a
    footprint, then all are listed).  Pure recomputation with the oracle; never decides or names a violation."""
    from oracles import c12_oracle as O
    from gen import c12_bam as G
    k = (tuple(spec), bin_size, min_mq, tuple(key_tags or ()))
    if k not in _EXPLAIN:
        recs = G.records(list(spec))
        labels = {r['name']: set(r['labels']) for r in recs}
        kinds = []
        for r in recs:
            for lab in r['labels']:
                if lab not in kinds:
                    kinds.append(lab)
        hyp = []
        for lab in kinds:
            for f in (0, 1, 2, 3):
                def weight(name, q, lab=lab, f=f):
                    if lab in labels[name]:
                        return f
                    return 1 if q else 0
                m, _, _ = O.expected(_bam(spec), bin_size, min_mq, key_tags, weight=weight)
                hyp.append((lab, f, m))
        _EXPLAIN[k] = hyp
    want = _expected(spec, bin_size, min_mq, key_tags)[0]
    return [f'{lab} records counted {f}x' for lab, f, m in _EXPLAIN[k] if m != want and m == got_matrix][:6]


def _site_name(case):
    s = case['fn']
    if case.get('defaults'):
        s += ':default-options'
    return s


def judge(case, got, err):
    """Compare one observed result with the property. -> [(signature, detail)]"""
    from oracles import c12_oracle as O
    site = _site_name(case)
    if err is not None:
        return [(f'{site}:exception:{type(err).__name__}', repr(err))]
    spec = case['bam']
    bin_size = case['bin_size']
    if case.get('defaults'):
        min_mq, key_tags = 50, None          # documented defaults of generate_commands
    else:
        min_mq, key_tags = case['min_mq'], case.get('key_tags')
    n_tags = len(key_tags or ())
    out = []
    matrix, bad = _canon_to_matrix(got, n_tags)
    lengths = _lengths(spec)
    if case['fn'] == 'obtain_counts':
        for key, row in got:
            if len(key) == n_tags + 3 and not O.tiling_ok(key[-3], key[-2], key[-1], bin_size, lengths):
                bad.append((tuple(key), 'not-a-bin-of-the-tiling'))
    else:
        for key, row in got:
            if len(key) == 2 and not (key[0] in lengths and key[1] % bin_size == 0 and 0 <= key[1] < lengths[key[0]]):
                bad.append((tuple(key), 'not-a-bin-of-the-tiling'))
    if bad:
        out.append((f'{site}:count-in-unknown-bin', {'keys': bad[:5]}))
    want, total, _ = _expected(spec, bin_size, min_mq, key_tags)
    under, over = O.diff(matrix, want)
    if under or over:
        clause = 'undercount' if under and not over else 'overcount' if over and not under else 'miscount'
        out.append((f'{site}:{clause}', {'expected_total': total, 'got_total': O.total(matrix),
                          'consistent_with': _explain(spec, bin_size, min_mq, key_tags, matrix),
                          'under(key,cell,got,want)': under[:4], 'over(key,cell,got,want)': over[:4],
                          'n_under': len(under), 'n_over': len(over)}))
    return out


def _order_kind(order, n):
    if order is None or list(order) == list(range(n)):
        return 'submission'
    if list(order) == list(range(n - 1, -1, -1)):
        return 'reversed'
    return 'other'


def _split(spec, bin_size, bpj):
    """is at least one contig split into >= 2 jobs (computed from the layout, not from the code)"""
    return any(length > bin_size * bpj for length in _lengths(spec).values())


def _report(acc, case, viols, n_jobs, nontrivial, outcome):
    acc.case(case, transitions=max(n_jobs, 1), execs=1, nontrivial=nontrivial, outcome=outcome)
    for sig, d in viols:
        acc.violation(sig, case, d)


def _explore_orders(acc, base_case, tier, judge_fn, order_set=None):
    """first run in submission order (learns the number of jobs from the pool log), then every other order"""
    b = bounds(tier)
    case = dict(base_case, order=None)
    got, err, sch = _run_scheduled(case)
    n = sch.log[0]['n'] if sch.log else 0
    if sch.log and len(sch.log) != 1:
        raise bind.HarnessError(f'expected one pool call, saw {sch.log!r}')
    if sch.pools and base_case.get('threads') is not None and not base_case.get('defaults') \
            and sch.pools[0]['processes'] != base_case['threads']:
        raise bind.HarnessError(f'thread count not passed to Pool: {sch.pools!r}')
    split = _split(base_case['bam'], base_case['bin_size'], base_case.get('bins_per_job', 10 ** 9)) \
        if base_case['fn'] == 'obtain_counts' else n >= 2
    first = judge_fn(case, got, err)
    label = 'exception' if err is not None else ('violation' if first else 'ok')
    _report(acc, case, first, sch.executed, False, f'{_site_name(case)},jobs={n},order=submission,{label}')
    acc.count('job_bodies_executed', sch.executed)
    if n == 0:
        return n, got
    if order_set is None:
        all_orders = sched.orders(n, full_upto=b['full_upto'], swaps=b['swaps'])
    else:
        all_orders = order_set(n)
    for order in all_orders:
        if list(order) == list(range(n)):
            continue
        case = dict(base_case, order=list(order))
        g, e, s = _run_scheduled(case)
        v = judge_fn(case, g, e)
        if not v and err is None and e is None and g != got:
            v = [(f'{_site_name(case)}:depends-on-schedule', {'submission_order': got[:6], 'this_order': g[:6]})]
        label = 'exception' if e is not None else ('violation' if v else 'ok')
        _report(acc, case, v, s.executed, split, f'{_site_name(case)},jobs={n},order={_order_kind(order, n)},{label}')
        acc.count('job_bodies_executed', s.executed)
    return n, got


# ------------------------------------------------------------------------------------------------ histories / several BAMs
def _renamed_copy(src, dst, suffix, only=None):
    """copy of a BAM in which the cells (SM) listed in `only` (None: every cell) get a suffix: a second library whose cells
    are disjoint from / partly shared with / the same as those of the first"""
    import pysam
    with pysam.AlignmentFile(src) as f, pysam.AlignmentFile(dst, 'wb', header=f.header) as o:
        for r in f.fetch(until_eof=True):
            if r.has_tag('SM') and (only is None or r.get_tag('SM') in only):
                r.set_tag('SM', r.get_tag('SM') + suffix)
            o.write(r)
    pysam.index(dst)


def _renamed(cell, only):
    return cell + '_L2' if (only is None or cell in only) else cell


def _copy_without_contig(src, dst, contig):
    """copy of a BAM (same header) that holds no record on `contig`: a library without reads there"""
    import pysam
    with pysam.AlignmentFile(src) as f, pysam.AlignmentFile(dst, 'wb', header=f.header) as o:
        for r in f.fetch(until_eof=True):
            if r.reference_name != contig:
                o.write(r)
    pysam.index(dst)


def _run_histories(acc, tier):
    """(a) the BAM at one path is replaced between counting runs of the same process (nothing remembered about a path may be
    reused); (b) two libraries with disjoint cells counted in one call (as the copy-number caller does): every bin arrives once
    per file and the cells of both must survive the merge, for every completion order"""
    from oracles import c12_oracle as O
    from gen import c12_run
    work = tempfile.mkdtemp(prefix='c12h_', dir='/dev/shm')
    try:
        specA, specB = ('core', 100, 50, 0), ('core', 100, 50, 1)
        P = os.path.join(work, 'reused.bam')
        seq = [specA, specB, specA]
        for step, spec in enumerate(seq):
            shutil.copy(_bam(spec), P)
            shutil.copy(_bam(spec) + '.bai', P + '.bai')
            for bpj in (1, 3):
                case = {'fn': 'obtain_counts', 'bam': list(spec), 'bin_size': 50, 'bins_per_job': bpj, 'min_mq': 50,
                        'max_fragment_size': 100, 'key_tags': None, 'kwargs': None, 'threads': 4, 'order': None,
                        'history': f'path-reused-step{step}'}
                with _scheduled(None) as sch:
                    try:
                        got, err = c12_run.call(case, P), None
                    except bind.HarnessError:
                        raise
                    except Exception as e:
                        got, err = None, e
                viols = [(s_.replace('obtain_counts', 'obtain_counts:bam-replaced-at-same-path', 1), d) for s_, d in judge(case, got, err)]
                _report(acc, case, viols, len(sch.log[0]['order']) if sch.log else 0, True, f'history:path-reused:step{step}')
        # (b) two libraries
        # the second library holds the same records with: every cell renamed (disjoint cells) / no cell renamed (the same cells
        # sequenced twice, e.g. two lanes) / one cell renamed (partly shared). Every record of both files counts once.
        # ... and a FIRST library that has no read at all on one contig the second library covers (what is learnt about the
        # contigs of one file must not decide the jobs of the next)
        lib1_short = os.path.join(work, 'lib1_without_c2.bam')
        _copy_without_contig(_bam(specA), lib1_short, 'c2')
        for libkind, only in (('two-libraries', None), ('two-libraries-same-cells', ()), ('two-libraries-shared-cells', ('cellB',)),
                              ('two-libraries-first-lacks-a-contig', None)):
          lib2 = os.path.join(work, f'lib2_{libkind}.bam')
          _renamed_copy(_bam(specA), lib2, '_L2', only)
          lib1 = lib1_short if libkind == 'two-libraries-first-lacks-a-contig' else _bam(specA)
          for bpj in (1, 2, 5):
            base = {'fn': 'obtain_counts', 'bam': list(specA), 'bin_size': 50, 'bins_per_job': bpj, 'min_mq': 50,
                    'max_fragment_size': 100, 'key_tags': None, 'kwargs': None, 'threads': 4, 'history': libkind}
            want1, total1, _ = _expected(specA, 50, 50, None)
            want = {k: dict(v) for k, v in want1.items() if not (lib1 is lib1_short and k[0] == 'c2')}
            for k, row in want1.items():
                want.setdefault(k, {})
                for cell, n in row.items():
                    want[k][_renamed(cell, only)] = want[k].get(_renamed(cell, only), 0) + n
            n_jobs = None
            orders = [None]
            tried = 0
            while orders:
                order = orders.pop(0)
                case = dict(base, order=order)
                with _scheduled(order) as sch:
                    try:
                        got, err = c12_run.call(case, [lib1, lib2]), None
                    except bind.HarnessError:
                        raise
                    except Exception as e:
                        got, err = None, e
                if n_jobs is None and sch.log:
                    n_jobs = sch.log[0]['n']
                    from mc.sched import near_orders
                    orders = [list(o) for o in near_orders(n_jobs, 1) if list(o) != list(range(n_jobs))][:12] + [list(reversed(range(n_jobs)))]
                viols = []
                if err is not None:
                    viols.append((f'obtain_counts:{libkind}:exception:{type(err).__name__}', repr(err)))
                else:
                    matrix, bad = _canon_to_matrix(got, 0)
                    under, over = O.diff(matrix, want)
                    if under or over:
                        clause = 'undercount' if under and not over else 'overcount' if over and not under else 'miscount'
                        viols.append((f'obtain_counts:{libkind}:{clause}',
                                      {'expected_total': 2 * total1, 'got_total': O.total(matrix), 'under': under[:3], 'over': over[:3]}))
                _report(acc, case, viols, n_jobs or 0, True, f'history:{libkind}:bpj={bpj}')
                tried += 1
    finally:
        shutil.rmtree(work, ignore_errors=True)


def run_shard(shard, tier, acc):
    if shard[0] == 'hist':
        _run_histories(acc, tier)
        return
    if _run_new_shard(shard, tier, acc):
        return
    kind = shard[0]
    b = bounds(tier)
    if kind == 'oc':
        _, layout, mq, bin_size, bpj, D, kt = shard
        # thread counts: the number of workers must not decide which jobs are dispatched (with one bin per job - the largest
        # number of jobs - also 1, 2 and 3 workers; the quantifier names thread counts)
        for threads in ((4, 1, 2, 3) if bpj == 1 else (4,)):
            base = {'fn': 'obtain_counts', 'bam': ['core', D, mq, layout], 'bin_size': bin_size, 'bins_per_job': bpj,
                    'max_fragment_size': D, 'key_tags': kt, 'min_mq': mq, 'kwargs': dict(KWARGS), 'threads': threads,
                    'show_progress': bool(bpj % 2 == 0)}
            if threads == 4:
                _explore_orders(acc, base, tier, judge)
            else:
                _explore_orders(acc, base, tier, judge, order_set=lambda n: [tuple(range(n - 1, -1, -1))])
    elif kind == 'defaults':
        _, layout, mq = shard
        for bin_size in b['bin_sizes']:
            for bpj in range(1, _nbins(layout, bin_size) + 1):
                base = {'fn': 'obtain_counts', 'defaults': True, 'bam': ['core', 1000, 50, layout],
                        'bin_size': bin_size, 'bins_per_job': bpj}
                _explore_orders(acc, base, tier, judge, order_set=lambda n: [tuple(range(n - 1, -1, -1))])
    elif kind == 'gbc':
        _, layout, mq, bin_size = shard
        for threads in b['get_binned_counts_threads']:
            base = {'fn': 'get_binned_counts', 'bam': ['core', 1000, mq, layout], 'bin_size': bin_size,
                    'min_mq': mq, 'threads': threads}
            _explore_orders(acc, base, tier, judge)
    elif kind == 'edge':
        _, layout, mq, bin_size, D = shard
        _run_edge(acc, tier, layout, mq, bin_size, D)
    elif kind == 'sparse':
        # coverage gaps wider than a job: sites in stretches which no alignment overlaps, every job split
        _, layout, mq, bin_size, D = shard
        for bpj in range(1, _nbins(layout, bin_size) + 1):
            base = {'fn': 'obtain_counts', 'bam': ['sparse', D, mq, layout], 'bin_size': bin_size, 'bins_per_job': bpj,
                    'max_fragment_size': D, 'key_tags': None, 'min_mq': mq, 'kwargs': dict(KWARGS), 'threads': 4}
            _explore_orders(acc, base, tier, judge, order_set=lambda n: [tuple(range(n - 1, -1, -1))])
    elif kind == 'conformance':
        _run_conformance(acc, tier)
    else:
        raise bind.HarnessError(f'unknown shard {shard!r}')


# ------------------------------------------------------------------------------------------------ edge BAMs

def _edge_case(layout, mq, bin_size, D, bpj, order):
    return {'fn': 'obtain_counts', 'clause': 'invariance', 'bam': ['edge', D, mq, layout], 'bin_size': bin_size,
            'bins_per_job': bpj, 'max_fragment_size': D, 'key_tags': None, 'min_mq': mq, 'kwargs': dict(KWARGS),
            'threads': 4, 'order': order}


def _judge_edge(case, got, err, ref, ref_err):
    site = 'obtain_counts:site-outside-contig'
    if ref_err is not None:
        return [(f'{site}:exception:{type(ref_err).__name__}', repr(ref_err))]
    if err is not None:
        return [(f'{site}:exception:{type(err).__name__}', repr(err))]
    if got != ref:
        a = {json.dumps(k): row for k, row in ref}
        c = {json.dumps(k): row for k, row in got}
        differ = [(k, a.get(k), c.get(k)) for k in sorted(set(a) | set(c)) if a.get(k) != c.get(k)]
        same_split = case['bins_per_job'] == 1
        clause = 'depends-on-schedule' if same_split else 'depends-on-bins-per-job'
        return [(f'{site}:{clause}', {'bins(key, 1-bin-per-job, this)': differ[:4], 'n_differing_bins': len(differ)})]
    return []


def _edge_orders(tier, n):
    out = [tuple(range(n)), tuple(range(n - 1, -1, -1))]
    if tier != 'quick':
        out = sched.near_orders(n, swaps=1)
    seen, res = set(), []
    for o in out:
        if o not in seen:
            seen.add(o)
            res.append(o)
    return res


def _run_edge(acc, tier, layout, mq, bin_size, D):
    ref_case = _edge_case(layout, mq, bin_size, D, 1, None)
    ref, ref_err, sch = _run_scheduled(ref_case)
    for bpj in range(1, _nbins(layout, bin_size) + 1):
        first = _edge_case(layout, mq, bin_size, D, bpj, None)
        g0, e0, s0 = _run_scheduled(first)
        n = s0.log[0]['n'] if s0.log else 0
        for order in _edge_orders(tier, n):
            ident = list(order) == list(range(n))
            case = _edge_case(layout, mq, bin_size, D, bpj, None if ident else list(order))
            if ident:
                g, e, s = g0, e0, s0
            else:
                g, e, s = _run_scheduled(case)
            v = _judge_edge(case, g, e, ref, ref_err)
            label = 'exception' if e is not None else ('violation' if v else 'ok')
            _report(acc, case, v, s.executed, _split(case['bam'], bin_size, bpj) and not (bpj == 1 and ident),
                    f'edge,jobs={n},order={_order_kind(order, n)},{label}')
            acc.count('job_bodies_executed', s.executed)


# ------------------------------------------------------------------------------------------------ conformance (real Pool)

def _conformance_cases(tier):
    b = bounds(tier)
    out = []
    for layout in b['layouts']:
        for threads in b['conformance_threads']:
            for bin_size in b['bin_sizes']:
                out.append({'fn': 'obtain_counts', 'real_pool': True, 'bam': ['core', 100, 50, layout],
                            'bin_size': bin_size, 'bins_per_job': 1, 'max_fragment_size': 100, 'key_tags': ['DA'],
                            'min_mq': 50, 'kwargs': dict(KWARGS), 'threads': threads, 'show_progress': True})
            out.append({'fn': 'get_binned_counts', 'real_pool': True, 'bam': ['core', 1000, 50, layout],
                        'bin_size': 100, 'min_mq': 50, 'threads': threads})
    return out


def _real_pool(cases):
    """free-running: fresh interpreter, real multiprocessing.Pool, nothing patched"""
    verif = os.path.dirname(os.path.dirname(os.path.abspath(__file__)))
    jobs = [[c, _bam(c['bam'])] for c in cases]
    env = dict(os.environ, VERIF_REPO=bind.REPO, PYTHONHASHSEED='0')
    p = subprocess.run([sys.executable, '-m', 'gen.c12_run'], input=json.dumps(jobs), capture_output=True,
                       text=True, cwd=verif, env=env, timeout=600)
    if p.returncode != 0:
        raise bind.HarnessError(f'conformance runner failed: {p.stderr[-600:]}')
    res = json.loads(p.stdout)
    if len(res) != len(cases):
        raise bind.HarnessError('conformance runner returned a wrong number of results')
    return res


class _RemoteError(Exception):
    pass


def _judge_conformance(case, res):
    if 'exception' in res:
        e = type(res['exception'], (_RemoteError,), {})(res['repr'])
        return judge(case, None, e), None
    got = res['ok']
    v = judge(case, got, None)
    sgot, serr, _ = _run_scheduled(dict(case, order=None))
    if not v and (serr is not None or sgot != got):
        v = [(f'{_site_name(case)}:real-pool-differs-from-scheduled-pool',
              {'real': got[:4], 'scheduled': (sgot or [])[:4], 'scheduled_exception': repr(serr)})]
    return v, got


def _run_conformance(acc, tier):
    cases = _conformance_cases(tier)
    results = _real_pool(cases)
    for case, res in zip(cases, results):
        v, got = _judge_conformance(case, res)
        label = 'exception' if 'exception' in res else ('violation' if v else 'ok')
        _report(acc, case, v, 1, True, f'real-pool,{case["fn"]},{label}')


# ================================================================================================ audit extension
# More of the space the quantifier covers: the options of generate_commands that select records or jobs (dedup,
# kwargs ignore_mp, min_mq None/0, two key tags, skip_contigs, head, alt_spans, a one-element path list, an explicit
# count_function), records without SM / without DS, several libraries with unnamed records, the other entry points
# (get_binned_counts without a filter, with several files and with regions, get_binned_counts_prefixed, the installed
# script) and the record filter itself as a truth table.  Cases of this part carry 'mode' and are judged by judge2.

def _opt_sets(layout, bin_size, bpj):
    """(name, case overrides, oracle overrides, mode) - simplest first"""
    from gen import c12_bam as G
    contigs = [c for c, _ in G.LAYOUTS[layout]]
    lengths = dict(G.LAYOUTS[layout])
    n_jobs = sum(-(-l // (bin_size * bpj)) for l in lengths.values())       # job width = bin * bins per job
    first, second, last = contigs[0], contigs[1], contigs[-1]
    out = [
        ('base', {}, {}, 'exact'),
        ('kwargs-copy-number+allele', {'kwargs': dict(KWARGS), 'key_tags': ['DA']}, {}, 'exact'),
        ('two-key-tags', {'key_tags': ['DA', 'SM']}, {}, 'exact'),
        ('dedup-off', {'gc_extra': {'dedup': False}}, {'dedup': False}, 'exact'),
        ('ignore-mp', {'kwargs': {'ignore_mp': True}}, {'ignore_mp': True}, 'exact'),
        ('dedup-off+ignore-mp', {'gc_extra': {'dedup': False}, 'kwargs': {'ignore_mp': True}},
         {'dedup': False, 'ignore_mp': True}, 'exact'),
        ('min-mq-none', {'min_mq': None}, {'min_mq': None}, 'exact'),
        ('min-mq-0', {'min_mq': 0}, {'min_mq': 0}, 'exact'),
        ('path-as-list', {'path_as': 'list'}, {}, 'exact'),
        ('count-function-explicit', {'count_function': 'explicit', 'show_progress': True}, {}, 'exact'),
        ('skip-first', {'gc_extra': {'skip_contigs': [first]}}, {'skip_contigs': [first]}, 'exact'),
        ('skip-last-as-set', {'gc_extra': {'skip_contigs': [last]}, 'skip_as': 'set'}, {'skip_contigs': [last]}, 'exact'),
        ('skip-two', {'gc_extra': {'skip_contigs': [second, last]}}, {'skip_contigs': [second, last]}, 'exact'),
        ('skip-all', {'gc_extra': {'skip_contigs': list(contigs)}, 'show_progress': True}, {'skip_contigs': list(contigs)}, 'exact'),
        ('skip-unknown-name', {'gc_extra': {'skip_contigs': ['no_such_contig']}}, {}, 'exact'),
        ('skip-empty', {'gc_extra': {'skip_contigs': []}}, {}, 'exact'),
        ('skip-first+allele', {'gc_extra': {'skip_contigs': [first]}, 'key_tags': ['DA']}, {'skip_contigs': [first]}, 'exact'),
        ('head-1', {'gc_extra': {'head': 1}}, {}, 'head'),
        ('head-2', {'gc_extra': {'head': 2}}, {}, 'head'),
        ('head-all-jobs', {'gc_extra': {'head': n_jobs}}, {}, 'exact'),
        ('head-more-than-jobs', {'gc_extra': {'head': n_jobs + 1}}, {}, 'exact'),
        ('alt-spans-last', {'gc_extra': {'alt_spans': {last: [first, 37, 37 + lengths[last]]}}}, {'alt': [last]}, 'alt'),
        ('alt-spans-two', {'gc_extra': {'alt_spans': {second: [first, 100, 100 + lengths[second]],
                                                      last: [first, 37, 37 + lengths[last]]}}},
         {'alt': [second, last]}, 'alt'),
        ('alt-spans-unknown-name', {'gc_extra': {'alt_spans': {'no_such_contig': [first, 37, 87]}}}, {}, 'exact'),
    ]
    return out


_WANT2 = {}


def _want2(case):
    """oracle result for a new-style case (cached per process)"""
    from oracles import c12_oracle as O
    o = dict(case.get('oracle') or {})
    specs = case.get('bams') or [case['bam']]
    k = json.dumps([specs, case['bin_size'], o, case.get('min_mq', 50), case.get('key_tags'), case.get('regions'),
                    case.get('aliases')], sort_keys=True)
    if k not in _WANT2:
        regions = case.get('regions')
        contigs = None
        if regions is not None:
            contigs = [r if isinstance(r, str) else r[0] for r in regions]
        w = O.expected_general([_bam(s) for s in specs], case['bin_size'],
                               min_mq=o['min_mq'] if 'min_mq' in o else case.get('min_mq', 50),
                               dedup=o.get('dedup', True), ignore_mp=o.get('ignore_mp', False),
                               key_tags=case.get('key_tags'), skip_contigs=o.get('skip_contigs'),
                               default_filter=bool(o.get('default_filter')), aliases=case.get('aliases'),
                               contigs=contigs)
        if regions is not None and any(not isinstance(r, str) for r in regions):
            w = _demote_outside_regions(w, specs, case, o)
        _WANT2[k] = w
    return _WANT2[k]


def _demote_outside_regions(w, specs, case, o):
    """regions given with coordinates: the property does not say how far a region reaches; only records whose site AND
    aligned bases lie inside [start, end) must be counted, every other record of the contig may be counted once or not"""
    import pysam
    from oracles import c12_oracle as O
    exact, opn = {}, {}
    n_exact = n_open = 0
    reg = {r[0]: (r[1], r[2]) for r in case['regions'] if not isinstance(r, str)}
    whole = {r for r in case['regions'] if isinstance(r, str)}
    bs = case['bin_size']
    for i, spec in enumerate(specs):
        with pysam.AlignmentFile(_bam(spec)) as f:
            for read in f.fetch(until_eof=True):
                contig = read.reference_name
                if contig not in reg and contig not in whole:
                    continue
                c = O.classify(read, o['min_mq'] if 'min_mq' in o else case.get('min_mq', 50), True, False,
                               bool(o.get('default_filter')))
                if c == 'skip':
                    continue
                site = int(read.get_tag('DS'))
                if contig in reg and reg[contig][0] is not None:
                    lo, hi = reg[contig]
                    inside = lo <= site < hi and lo <= read.reference_start and read.reference_end <= hi
                    if not inside:
                        c = 'open'
                cell = read.get_tag('SM') if read.has_tag('SM') else O.NOSM
                if case.get('aliases') is not None:
                    cell = f"{case['aliases'][i]}|{cell}"
                key = (contig, (site // bs) * bs)
                tgt = exact if c == 'count' else opn
                row = tgt.setdefault(key, {})
                row[cell] = row.get(cell, 0) + 1
                if c == 'count':
                    n_exact += 1
                else:
                    n_open += 1
    return dict(w, exact=exact, open=opn, n_exact=n_exact, n_open=n_open)


def _site2(case):
    s = case['fn']
    if case.get('opt'):
        s += ':' + case['opt']
    return s


def _matrix2(case, got, want):
    """canonical rows -> matrix with keys without the bin end, unnamed columns mapped to NOSM; malformed keys"""
    from oracles import c12_oracle as O
    n_tags = len(case.get('key_tags') or ())
    matrix, bad = _canon_to_matrix(got, n_tags)
    known = set(want['cells'])
    out = {}
    for key, row in matrix.items():
        r = out.setdefault(key, {})
        for cell, n in row.items():
            name = cell
            bare = cell.split('|', 1)[1] if (case.get('aliases') is not None and '|' in cell) else cell
            if bare not in known:
                name = cell[:len(cell) - len(bare)] + O.NOSM
            r[name] = r.get(name, 0) + n
    return out, bad


def judge2(case, got, err, ref=None, ref_err=None):
    """new-style cases. ref: the canonical result of the reference run (1 bin per job, submission order) for the modes
    that demand invariance only where the property leaves the bin open"""
    from oracles import c12_oracle as O
    site = _site2(case)
    mode = case['mode']
    if err is not None:
        return [(f'{site}:exception:{type(err).__name__}', repr(err))]
    want = _want2(case)
    n_tags = len(case.get('key_tags') or ())
    out = []
    matrix, bad = _matrix2(case, got, want)
    if mode == 'alt':
        # the remapped contigs: totals per cell and invariance only; the other contigs exactly
        alt = set(case['oracle']['alt'])
        rest = {k: v for k, v in matrix.items() if k[n_tags] not in alt}
        moved = {k: v for k, v in matrix.items() if k[n_tags] in alt}
        want_rest = dict(want, exact={k: v for k, v in want['exact'].items() if k[n_tags] not in alt})
        under, over = O.judge_general(rest, want_rest, n_tags)
        tot_got, tot_want = {}, {}
        for k, row in moved.items():
            for cell, n in row.items():
                kk = tuple(k[:n_tags]) + (cell,)
                tot_got[kk] = tot_got.get(kk, 0) + n
        for k, row in want['exact'].items():
            if k[n_tags] in alt:
                for cell, n in row.items():
                    kk = tuple(k[:n_tags]) + (cell,)
                    tot_want[kk] = tot_want.get(kk, 0) + n
        for kk in sorted(set(tot_got) | set(tot_want), key=repr):
            a, b = tot_got.get(kk, 0), tot_want.get(kk, 0)
            if a < b:
                under.append((('remapped-contigs',) + kk[:-1], kk[-1], a, b, b))
            elif a > b:
                over.append((('remapped-contigs',) + kk[:-1], kk[-1], a, b, b))
        if bad:
            out.append((f'{site}:count-in-unknown-bin', {'keys': bad[:5]}))
    else:
        lengths = _lengths(case['bam'])
        bs = case['bin_size']
        for key, row in got:
            if case['fn'] in ('obtain_counts', 'cli'):
                if len(key) == n_tags + 3 and not O.tiling_ok(key[-3], key[-2], key[-1], bs, lengths):
                    bad.append((tuple(key), 'not-a-bin-of-the-tiling'))
            elif len(key) == 2 and not (key[0] in lengths and key[1] % bs == 0 and 0 <= key[1] < lengths[key[0]]):
                bad.append((tuple(key), 'not-a-bin-of-the-tiling'))
        if bad:
            out.append((f'{site}:count-in-unknown-bin', {'keys': bad[:5]}))
        under, over = O.judge_general(matrix, want, n_tags)
        if mode == 'head':
            under = []                          # which jobs `head` keeps is not stated: never more than the full matrix
    if under or over:
        clause = 'undercount' if under and not over else 'overcount' if over and not under else 'miscount'
        out.append((f'{site}:{clause}', {'must_count': want['n_exact'], 'may_count': want['n_open'],
                                         'without_DS': want['n_floating'], 'got_total': O.total(matrix),
                                         'under(key,cell,got,min,max)': under[:4], 'over(key,cell,got,min,max)': over[:4],
                                         'n_under': len(under), 'n_over': len(over)}))
    if not out and case.get('invariant'):
        if ref_err is not None:
            out.append((f'{site}:exception:{type(ref_err).__name__}', repr(ref_err)))
        elif ref is not None and got != ref:
            a = {json.dumps(k): row for k, row in ref}
            c = {json.dumps(k): row for k, row in got}
            differ = [(k, a.get(k), c.get(k)) for k in sorted(set(a) | set(c)) if a.get(k) != c.get(k)]
            clause = 'depends-on-schedule' if case.get('bins_per_job') == 1 else 'depends-on-bins-per-job'
            out.append((f'{site}:{clause}', {'bins(key, 1-bin-per-job, this)': differ[:4], 'n_differing_bins': len(differ)}))
    return out


def _run2(case):
    """-> (got, err, schedule)"""
    from gen import c12_run
    specs = case.get('bams') or [case['bam']]
    paths = [_bam(s) for s in specs]
    arg = paths if (len(paths) > 1 or case['fn'] != 'obtain_counts') else paths[0]
    with _scheduled(case.get('order')) as sch:
        try:
            got, err = c12_run.call(case, arg), None
        except bind.HarnessError:
            raise
        except Exception as e:
            got, err = None, e
    return got, err, sch


def _ref_case(case):
    return dict(case, bins_per_job=1, order=None)


_REF2 = {}


def _reference2(case):
    rc = _ref_case(case)
    k = json.dumps(rc, sort_keys=True)
    if k not in _REF2:
        g, e, _ = _run2(rc)
        _REF2[k] = (g, e)
    return _REF2[k]


def _orders2(tier, n, wide=False):
    if n <= 1:
        return [None]
    out = [None, list(range(n - 1, -1, -1))]
    if tier != 'quick' or wide:
        for o in sched.near_orders(n, swaps=1)[:7]:
            o = list(o)
            if o != list(range(n)) and o not in out:
                out.append(o)
    return out


def _explore2(acc, base, tier, label, wide=False, one_order=False):
    """submission order first (learns the number of jobs), then the other orders; every run judged, and compared with
    the submission-order run"""
    case = dict(base, order=None)
    got, err, sch = _run2(case)
    n = sch.log[0]['n'] if sch.log else 0
    ref = ref_err = None
    if base.get('invariant'):
        ref, ref_err = _reference2(case)
    first = judge2(case, got, err, ref, ref_err)
    split = n >= 2                      # results of >= 2 jobs are merged
    tag = 'exception' if err is not None else ('violation' if first else 'ok')
    _report(acc, case, first, sch.executed, split, f'{label},order=submission,{tag}')
    acc.count('job_bodies_executed', sch.executed)
    for order in _orders2(tier, n, wide):
        if order is None or one_order:
            continue
        c = dict(base, order=order)
        g, e, s = _run2(c)
        v = judge2(c, g, e, ref, ref_err)
        if not v and err is None and e is None and g != got:
            v = [(f'{_site2(c)}:depends-on-schedule', {'submission_order': got[:6], 'this_order': g[:6]})]
        tag = 'exception' if e is not None else ('violation' if v else 'ok')
        _report(acc, c, v, s.executed, split, f'{label},order={_order_kind(order, n)},{tag}')
        acc.count('job_bodies_executed', s.executed)
    return n


def _run_ocx(acc, tier, layout, mq, bin_size, bpj, D):
    for name, over, orc, mode in _opt_sets(layout, bin_size, bpj):
        base = {'fn': 'obtain_counts', 'mode': mode, 'opt': name, 'bam': ['ext', D, mq, layout], 'bin_size': bin_size,
                'bins_per_job': bpj, 'max_fragment_size': D, 'key_tags': None, 'min_mq': mq, 'kwargs': {},
                'threads': 4, 'oracle': orc}
        base.update(over)
        if mode == 'alt':
            base['invariant'] = True
        _explore2(acc, base, tier, f'options:{name}')


def _run_nods(acc, tier, layout, mq, bin_size, D):
    for kt in (None, ['DA']):
        for bpj in range(1, _nbins(layout, bin_size) + 1):
            base = {'fn': 'obtain_counts', 'mode': 'floating', 'opt': 'records-without-DS', 'bam': ['nods', D, mq, layout],
                    'bin_size': bin_size, 'bins_per_job': bpj, 'max_fragment_size': D, 'key_tags': kt, 'min_mq': mq,
                    'kwargs': {}, 'threads': 4, 'oracle': {}, 'invariant': True}
            _explore2(acc, base, tier, 'records-without-DS:obtain_counts')
    base = {'fn': 'get_binned_counts', 'mode': 'floating', 'opt': 'records-without-DS', 'bam': ['nods', D, mq, layout],
            'bin_size': bin_size, 'min_mq': mq, 'threads': 2, 'oracle': {}}
    _explore2(acc, base, tier, 'records-without-DS:get_binned_counts')


MULTI = [   # (name, [(variant, lib)...])
    ('unnamed-records-in-one-library', [('ext', None), ('core', 'L2all')]),
    ('unnamed-records-in-both-libraries', [('ext', None), ('ext', 'L2all')]),
    ('unnamed-records+same-cells', [('ext', None), ('ext', 'L2none')]),
    ('unnamed-records+shared-cell', [('ext', None), ('ext', 'L2B')]),
]


def _spec(variant, D, mq, layout, lib):
    return [variant, D, mq, layout] if lib is None else [variant, D, mq, layout, lib]


def _run_multi(acc, tier, layout, bin_size):
    """several libraries in ONE call, records without a cell name in one / in both of them"""
    D = 100
    for name, pair in MULTI:
        specs = [_spec(v, D, 50, layout, lib) for v, lib in pair]
        for kt in (None, ['DA']):
            for bpj in sorted({1, 2, _nbins(layout, bin_size)}):
                if kt is not None and bpj != 1 and tier == 'quick':
                    continue
                base = {'fn': 'obtain_counts', 'mode': 'exact', 'opt': 'two-libraries:' + name, 'bam': specs[0],
                        'bams': specs, 'bin_size': bin_size, 'bins_per_job': bpj, 'max_fragment_size': D,
                        'key_tags': kt, 'min_mq': 50, 'kwargs': {}, 'threads': 4, 'oracle': {}}
                _explore2(acc, base, tier, f'two-libraries:{name}', wide=True)


def _gbx_cases(layout, mq, bin_size):
    from gen import c12_bam as G
    contigs = [c for c, _ in G.LAYOUTS[layout]]
    lengths = dict(G.LAYOUTS[layout])
    D = 1000
    region_sets = [
        ('regions-none', None),
        ('regions-names-reversed', list(reversed(contigs))),
        ('regions-one-name', [contigs[0]]),
        ('regions-two-names', [contigs[-1], contigs[1]]),
        ('regions-coordinates', [[contigs[0], 100, 300]]),
        ('regions-coordinates+name', [[contigs[1], 50, lengths[contigs[1]]], contigs[0], [contigs[-1], None, None]]),
    ]
    out = []
    for flt in ('property', 'default'):
        for rname, regions in region_sets:
            for libs in ([None], [None, 'L2all'], [None, 'L2none'], [None, 'L2B']):
                if len(libs) > 1 and rname not in ('regions-none', 'regions-coordinates+name'):
                    continue                        # several files: with the default regions and with the widest region form
                # get_binned_counts: records without SM go to a default column
                if mq == 50 or len(libs) == 1:
                    specs = [_spec('ext', D, mq if lib is None else 50, layout, lib) for lib in libs]
                    out.append({'fn': 'get_binned_counts', 'mode': 'exact', 'opt': f'{flt}-filter', 'bam': specs[0],
                                'bams': specs, 'bin_size': bin_size, 'min_mq': mq, 'threads': 2, 'filter': flt,
                                'regions': regions, 'oracle': {'default_filter': flt == 'default'},
                                'one_order': rname != 'regions-none',
                                'label': f'get_binned_counts,{flt}-filter,{rname},files={len(libs)}'})
                    # the prefixed form has no default cell name: every record carries SM
                    specs = [_spec('extsm', D, mq if lib is None else 50, layout, lib) for lib in libs]
                    shapes = [[['x', [0]]], [['x', [0]], ['y', [0]]]] if len(libs) == 1 else \
                        [[['x', [0, 1]]], [['x', [0]], ['y', [1]]]]
                    for shape in shapes:
                        used = [i for _, idx in shape for i in idx]
                        aliases = [a for a, idx in shape for _ in idx]
                        out.append({'fn': 'get_binned_counts_prefixed', 'mode': 'exact', 'opt': f'{flt}-filter',
                                    'bam': specs[0], 'bams': [specs[i] for i in used], 'bam_dict_shape': shape,
                                    'bam_dict': _reindex(shape), 'aliases': aliases, 'bin_size': bin_size, 'min_mq': mq,
                                    'threads': 2, 'filter': flt, 'regions': regions,
                                    'oracle': {'default_filter': flt == 'default'}, 'one_order': rname != 'regions-none',
                                    'label': f'get_binned_counts_prefixed,{flt}-filter,{rname},files={len(libs)},aliases={len(shape)}'})
    return out


def _reindex(shape):
    """bam_dict with indices into the list of paths handed to the runner (one path per (alias, file) occurrence)"""
    out, i = [], 0
    for alias, idx in shape:
        out.append([alias, list(range(i, i + len(idx)))])
        i += len(idx)
    return out


def _run_gbx(acc, tier, layout, mq, bin_size):
    for base in _gbx_cases(layout, mq, bin_size):
        base = dict(base)
        label = base.pop('label')
        one = base.pop('one_order')            # results are consumed in submission order (imap): the execution order
        _explore2(acc, base, tier, label, one_order=one)   # is varied for the default regions only


# ---- the installed script

def _cli_cases(tier):
    if tier == 'quick':
        return [c for c in _cli_cases_for([0]) if c['opt'] in ('frame-output', 'min_mq-option', 'head')]
    return _cli_cases_for([0, 1])


def _cli_cases_for(layouts):
    out = []
    for layout in layouts:
        out.append({'fn': 'cli', 'mode': 'exact', 'opt': 'defaults', 'bam': ['core', 1000, 50, layout], 'bin_size': 50,
                    'argv': [['-bin_size', 50], ['-j', 1], ['-t', 3], ['-min_mq', 50]], 'min_mq': 50, 'oracle': {}})
        out.append({'fn': 'cli', 'mode': 'exact', 'opt': 'frame-output', 'bam': ['ext', 1000, 50, layout], 'bin_size': 100,
                    'out_suffix': '.pickle.gz',
                    'argv': [['-bin_size', 100], ['-j', 2], ['-t', 2], ['-min_mq', 50]], 'min_mq': 50, 'oracle': {}})
        out.append({'fn': 'cli', 'mode': 'exact', 'opt': 'min_mq-option', 'bam': ['core', 1000, 1, layout], 'bin_size': 250,
                    'argv': [['-bin_size', 250], ['-j', 1], ['-t', 2], ['-min_mq', 1]], 'min_mq': 1, 'oracle': {}})
        out.append({'fn': 'cli', 'mode': 'exact', 'opt': 'max_fragment_size-option', 'bam': ['core', 100, 50, layout],
                    'bin_size': 100, 'argv': [['-bin_size', 100], ['-j', 1], ['-t', 2], ['-min_mq', 50],
                                              ['-max_fragment_size', 100]], 'min_mq': 50, 'oracle': {}})
        out.append({'fn': 'cli', 'mode': 'head', 'opt': 'head', 'bam': ['core', 1000, 50, layout], 'bin_size': 50,
                    'argv': [['-bin_size', 50], ['-j', 2], ['-t', 2], ['-min_mq', 50], ['-head', 2]], 'min_mq': 50,
                    'oracle': {}})
    return out


def _run_cli_case(case):
    from gen import c12_run
    try:
        return c12_run.call(case, _bam(case['bam'])), None
    except bind.HarnessError:
        raise
    except Exception as e:
        return None, e


def _run_cli(acc, tier, idx):
    case = _cli_cases(tier)[idx]
    got, err = _run_cli_case(case)
    v = judge2(case, got, err)
    tag = 'exception' if err is not None else ('violation' if v else 'ok')
    _report(acc, case, v, 1, True, f'installed-script,{case["opt"]},{tag}')


# ---- the record filter as a truth table

RC_T = 50


def _rc_records():
    out = []
    for pairing in ('read1', 'read2', 'unpaired'):
        for qcfail in (False, True):
            for dup in (False, True):
                for mp in (None, 'unique', 'multi'):
                    for mapq in (0, RC_T - 1, RC_T, RC_T + 1):
                        out.append({'pairing': pairing, 'qcfail': qcfail, 'dup': dup, 'mp': mp, 'mapq': mapq})
    return out


def _rc_options():
    out = []
    for min_mq in (RC_T, None, 0):
        for dedup in (True, False):
            for read1_only in (True, False):
                for ignore_mp in (False, True):
                    for ignore_qcfail in (False, True):
                        out.append({'min_mq': min_mq, 'dedup': dedup, 'read1_only': read1_only, 'ignore_mp': ignore_mp,
                                    'ignore_qcfail': ignore_qcfail})
    return out


def _rc_make(rec):
    import pysam
    from gen import reads as R
    hdr = R.header([('c1', 500)])
    tags = {'DS': 100, 'SM': 'cellA'}
    if rec['mp'] is not None:
        tags['mp'] = rec['mp']
    flag_extra = (0x400 if rec['dup'] else 0) | (0x200 if rec['qcfail'] else 0)
    paired = rec['pairing'] != 'unpaired'
    return R.make_read(hdr, 'r', 'A' * READ_LEN, 'c1', 100, f'{READ_LEN}M', read1=rec['pairing'] == 'read1', paired=paired,
                       mate=('c1', 100, True, False) if paired else None, mapq=rec['mapq'], tags=tags,
                       flag_extra=flag_extra)


def _rc_expected(rec, opt):
    """the record filter in the words of the property, each option switching off exactly the clause it names"""
    if opt['read1_only'] and rec['pairing'] != 'read1':
        return False
    if rec['qcfail'] and not opt['ignore_qcfail']:
        return False
    if rec['dup'] and opt['dedup']:
        return False
    if rec['mp'] not in (None, 'unique') and not opt['ignore_mp']:
        return False
    if opt['min_mq'] is not None and rec['mapq'] < opt['min_mq']:
        return False
    return True


def _rc_one(case):
    from singlecellmultiomics.bamProcessing import bamBinCounts as B
    read = _rc_make(case['record'])
    opt = case['options']
    want = _rc_expected(case['record'], opt)
    sink = io.StringIO()
    try:
        with contextlib.redirect_stdout(sink):
            if case.get('positional'):
                got = B.read_counts(read, opt['min_mq'], opt['dedup'], opt['read1_only'], opt['ignore_mp'],
                                    opt['ignore_qcfail'], bool(case.get('verbose')))
            else:
                got = B.read_counts(read, min_mq=opt['min_mq'], dedup=opt['dedup'], read1_only=opt['read1_only'],
                                    ignore_mp=opt['ignore_mp'], ignore_qcfail=opt['ignore_qcfail'],
                                    verbose=bool(case.get('verbose')))
    except Exception as e:
        return [(f'read_counts:exception:{type(e).__name__}', repr(e))], None
    if bool(got) != want:
        return [(f'read_counts:{"accepts-a-record-to-reject" if got else "rejects-a-record-to-count"}',
                 {'record': case['record'], 'options': opt, 'got': repr(got)})], bool(got)
    return [], bool(got)


def _run_rc(acc, tier):
    for oi, opt in enumerate(_rc_options()):
        for ri, rec in enumerate(_rc_records()):
            case = {'fn': 'read_counts', 'mode': 'filter', 'record': rec, 'options': opt,
                    'verbose': (oi + ri) % 5 == 0, 'positional': (oi + ri) % 2 == 1}
            v, got = _rc_one(case)
            reasons = sum([rec['pairing'] != 'read1', rec['qcfail'], rec['dup'], rec['mp'] == 'multi', rec['mapq'] < RC_T])
            acc.case(case, transitions=1, execs=1, nontrivial=reasons >= 1,
                     outcome=f'read_counts,{"violation" if v else ("accept" if got else "reject")}')
            for sig, d in v:
                acc.violation(sig, case, d)


def _run_new_shard(shard, tier, acc):
    kind = shard[0]
    if kind == 'ocx':
        _run_ocx(acc, tier, *shard[1:])
    elif kind == 'nods':
        _run_nods(acc, tier, *shard[1:])
    elif kind == 'multi':
        _run_multi(acc, tier, *shard[1:])
    elif kind == 'gbx':
        _run_gbx(acc, tier, *shard[1:])
    elif kind == 'cli':
        _run_cli(acc, tier, shard[1])
    elif kind == 'rc':
        _run_rc(acc, tier)
    else:
        return False
    return True


def _replay2(case):
    if case['mode'] == 'filter':
        return _rc_one(case)[0]
    if case['fn'] == 'cli':
        got, err = _run_cli_case(case)
        return judge2(case, got, err)
    ref = ref_err = None
    if case.get('invariant'):
        ref, ref_err = _reference2(case)
    g, e, _ = _run2(case)
    v = judge2(case, g, e, ref, ref_err)
    if not v and case.get('order') is not None:
        g0, e0, _ = _run2(dict(case, order=None))
        if e0 is None and g0 != g:
            v = [(f'{_site2(case)}:depends-on-schedule', {'submission_order': g0[:6], 'this_order': g[:6]})]
    return v


# ------------------------------------------------------------------------------------------------ replay

def replay(case):
    if case.get('mode'):
        return _replay2(case)
    if case.get('real_pool'):
        res = _real_pool([case])[0]
        return _judge_conformance(case, res)[0]
    if case.get('clause') == 'invariance':
        spec = case['bam']
        ref_case = _edge_case(spec[3], spec[2], case['bin_size'], spec[1], 1, None)
        ref, ref_err, _ = _run_scheduled(ref_case)
        g, e, _ = _run_scheduled(case)
        return _judge_edge(case, g, e, ref, ref_err)
    g, e, _ = _run_scheduled(case)
    v = judge(case, g, e)
    if not v and case.get('order') is not None:
        g0, e0, _ = _run_scheduled(dict(case, order=None))
        if e0 is None and g0 != g:
            v = [(f'{_site_name(case)}:depends-on-schedule', {'submission_order': g0[:6], 'this_order': g[:6]})]
    return v
