"""C13 - molecule consensus is the strict majority call and never reports a tie; order- and
duplication-invariant.

Seam: Molecule.get_consensus() (plain and dove_safe=True) on in-memory Fragment objects built from
pysam.AlignedSegment reads with MD tags; fragments are added with the real Molecule.add_fragment.

Space (the vote is per reference position, so it factorises):
 (i)  position level: every WORD (ordered sequence = insertion history) of <= N fragments over the kinds of
      contribution a fragment can make at a probed position (not covering / single-end A / single-end C /
      N / mates agree / R1 wins on quality / R2 wins on quality / mates tie at equal quality; with a smaller
      N additionally N-vs-base mate conflicts and a third base); all words = all multisets x all their distinct permutations.  For every
      multiset also the fragment-doubled molecule (appended and interleaved).
 (ii) window level: 3 adjacent positions, <= 3 fragments, every covered sub-window for R1 and R2 (hence all
      dove-tail shapes), mismatch at the first / last base of either mate, three quality relations, both
      molecule strands, soft-clip / deletion / insertion reads, dove_safe on and off, two insertion orders.
Oracle: brute-force vote written from the property statement, on this module's own CIGAR walk.
"""
import itertools

from mc.bind import HarnessError
from gen import c13_reads as G

ID = 'C13'
DESIGN_REF = 'DESIGN.md section 3, C13'
RULE = ('position level: every ordered word of <= N fragments over the K contribution kinds at a probed position '
        '(= all multisets x all distinct insertion orders), plus doubled molecules per multiset; window level: all '
        'multisets of <= 3 fragment letters over 3 adjacent positions x strand x dove_safe x 2 insertion orders. '
        'states = distinct (word | window case); a case is non-trivial when at some position at least two '
        'different bases receive a vote or a fragment has disagreeing mates')
ASSUMPTIONS = [
    'every fragment has an R1 (fragments without R1 are skipped by get_consensus; not generated)',
    'a single-end fragment is Fragment([R1, None]) as the package iterators build it; the Fragment([R1]) form of the '
    'class docstring is explored as a separate small family (call-site class single-read-list)',
    'bases are from ACGTN; all fragments of a molecule map to one contig and share the R1 strand',
    'N is not a base call: a fragment whose (higher-quality) call is N casts no vote',
    'dove_safe=True (docstring: only bases within the R1 / R2 start and end coordinates): a fragment votes only '
    'on positions between the start of the forward mate and the end of the reverse mate; fragments without R2 or '
    'with mates not facing inwards cast no vote',
]

# ------------------------------------------------------------------------------------------------
# reference: position P carries 'A'; the 3-position window W0..W0+2 reads 'ACG' and has no 'T' nearby
REF = 'GGCCGGCCGG' + 'ACG' + 'GGCCGCCGGCGGCCGCGGCC'
P = 10
W0 = 10
TAGS = {'SM': 'CELL_1', 'RX': 'CAT', 'BC': 'ACGT'}
Q_HI, Q_LO = 30, 10


def _rd(start, seq, quals, reverse, cigar=None):
    return {'start': start, 'cigar': cigar, 'seq': seq, 'quals': list(quals), 'reverse': reverse}


# ---- position-level kinds --------------------------------------------------------------------------
def _pos_kind(kind):
    """fragment description for contribution kind `kind` at position P (reads cover P-1..P+1)"""
    left, right = REF[P - 1], REF[P + 1]

    def r(base, q, reverse):
        return _rd(P - 1, left + base + right, [Q_HI, q, Q_HI], reverse)
    if kind == 0:   # not covering P
        return {'r1': _rd(P + 2, REF[P + 2:P + 5], [Q_HI] * 3, False), 'r2': None}
    if kind == 1:
        return {'r1': r('A', Q_HI, False), 'r2': None}
    if kind == 2:
        return {'r1': r('C', Q_HI, False), 'r2': None}
    if kind == 3:
        return {'r1': r('N', Q_HI, False), 'r2': None}
    if kind == 4:
        return {'r1': r('A', Q_HI, False), 'r2': r('A', Q_HI, True)}
    if kind == 5:
        return {'r1': r('A', Q_HI, False), 'r2': r('C', Q_LO, True)}
    if kind == 6:
        return {'r1': r('A', Q_LO, False), 'r2': r('C', Q_HI, True)}
    if kind == 7:
        return {'r1': r('A', Q_HI, False), 'r2': r('C', Q_HI, True)}
    if kind == 8:   # higher-quality mate says N -> the fragment's call is N
        return {'r1': r('N', Q_HI, False), 'r2': r('C', Q_LO, True)}
    if kind == 9:   # lower-quality mate says N -> the fragment's call is C
        return {'r1': r('N', Q_LO, False), 'r2': r('C', Q_HI, True)}
    if kind == 10:  # single-end G (a third base; lets three-way ties and 2/1/1 pluralities occur)
        return {'r1': r('G', Q_HI, False), 'r2': None}
    if kind == 11:  # single-end C called at phred 0: still a call (only N and mate ties are "no call")
        return {'r1': r('C', 0, False), 'r2': None}
    if kind == 12:  # R1 says A at phred 0, R2 says C at phred 10: the higher-quality mate (C) is the call
        return {'r1': r('A', 0, False), 'r2': r('C', Q_LO, True)}
    raise ValueError(kind)


POS_KIND_NAMES = ['away', 'seA', 'seC', 'seN', 'agreeA', 'A30/C10', 'A10/C30', 'A30/C30', 'N30/C10', 'N10/C30', 'seG', 'seC@q0',
                  'A0/C10']


# ---- window-level letters --------------------------------------------------------------------------
SUBWINDOWS = [(a, b) for a in range(3) for b in range(a, 3)]       # inclusive offsets into the window


def _win_read(a, b, variant, q, reverse):
    seq = list(REF[W0 + a:W0 + b + 1])
    if variant == 'first':
        seq[0] = 'T'
    elif variant == 'last':
        seq[-1] = 'T'
    return _rd(W0 + a, ''.join(seq), [q] * len(seq), reverse)


def _win_letter(letter, strand):
    """letter (JSON-able list) -> fragment description; `strand` = R1 is reverse"""
    kind = letter[0]
    if kind == 's':                      # single end: ['s', a, b, variant]
        _, a, b, v = letter
        return {'r1': _win_read(a, b, v, Q_HI, strand), 'r2': None}
    if kind == 'c':                      # single end with a CIGAR feature
        what = letter[1]
        if what == 'softclip':           # 1S2M at W0+1
            return {'r1': _rd(W0 + 1, 'T' + REF[W0 + 1:W0 + 3], [Q_HI] * 3, strand, [[4, 1], [0, 2]]), 'r2': None}
        if what == 'softclip-end':       # 2M1S at W0
            return {'r1': _rd(W0, REF[W0:W0 + 2] + 'T', [Q_HI] * 3, strand, [[0, 2], [4, 1]]), 'r2': None}
        if what == 'deletion':           # 1M1D1M at W0 : covers W0 and W0+2, last base mismatching
            return {'r1': _rd(W0, REF[W0] + 'T', [Q_HI] * 2, strand, [[0, 1], [2, 1], [0, 1]]), 'r2': None}
        if what == 'insertion':          # 1M1I1M at W0 : covers W0, W0+1
            return {'r1': _rd(W0, REF[W0] + 'T' + REF[W0 + 1], [Q_HI] * 3, strand, [[0, 1], [1, 1], [0, 1]]), 'r2': None}
        if what == 'skip':               # 1M1N1M at W0 : covers W0 and W0+2
            return {'r1': _rd(W0, REF[W0] + REF[W0 + 2], [Q_HI] * 2, strand, [[0, 1], [3, 1], [0, 1]]), 'r2': None}
        raise ValueError(what)
    if kind == 'p':                      # pair: ['p', a1, b1, a2, b2, variant, qrel]
        _, a1, b1, a2, b2, v, qrel = letter
        q1, q2 = {'gt': (Q_HI, Q_LO), 'lt': (Q_LO, Q_HI), 'eq': (Q_HI, Q_HI)}[qrel]
        v1 = {'m': None, '1f': 'first', '1l': 'last'}.get(v)
        v2 = {'m': None, '2f': 'first', '2l': 'last'}.get(v)
        return {'r1': _win_read(a1, b1, v1, q1, strand), 'r2': _win_read(a2, b2, v2, q2, not strand)}
    if kind == 'x':                      # pair NOT facing inwards (both mates on the molecule strand)
        return {'r1': _win_read(0, 2, None, Q_HI, strand), 'r2': _win_read(0, 2, 'first', Q_LO, strand)}
    raise ValueError(letter)


def _single_letters():
    out = []
    for a, b in SUBWINDOWS:
        out.append(['s', a, b, None])
    for a, b in SUBWINDOWS:
        out.append(['s', a, b, 'first'])
        if b > a:
            out.append(['s', a, b, 'last'])
    for what in ('softclip', 'softclip-end', 'deletion', 'insertion', 'skip'):
        out.append(['c', what])
    return out


def _pair_letters(variants, qrels, windows=None):
    out = []
    for (a1, b1) in SUBWINDOWS:
        for (a2, b2) in SUBWINDOWS:
            if windows is not None and ((a1, b1), (a2, b2)) not in windows:
                continue
            for v in variants:
                for q in qrels:
                    out.append(['p', a1, b1, a2, b2, v, q])
    return out


# window pairs for the 3-fragment level: full overlap, dove-tail on either side, adjacent, nested
_W3 = {((0, 2), (0, 2)), ((1, 2), (0, 1)), ((0, 1), (1, 2)), ((0, 0), (1, 2)), ((0, 2), (1, 1)), ((1, 1), (0, 2))}


def window_alphabet(level, tier):
    if level == 1:
        return _single_letters() + _pair_letters(['m', '1f', '1l', '2f', '2l'], ['gt', 'lt', 'eq']) + [['x']]
    if level == 2:
        if tier == 'quick':
            return _single_letters() + _pair_letters(['1f', '2l'], ['gt', 'eq']) + [['x']]
        return _single_letters() + _pair_letters(['m', '1f', '2l'], ['gt', 'lt', 'eq']) + [['x']]
    if level == 3:
        singles = [['s', 0, 2, None], ['s', 0, 2, 'first'], ['s', 1, 2, 'last'], ['s', 1, 1, 'first'], ['c', 'deletion']]
        if tier == 'quick':
            return singles + _pair_letters(['1f', '2l'], ['gt', 'eq'], _W3) + [['x']]
        return singles + [['s', 0, 0, None], ['s', 2, 2, 'first'], ['c', 'softclip']] + \
            _pair_letters(['1f', '2l'], ['gt', 'lt', 'eq'], _W3) + [['x']]
    raise ValueError(level)


# ---- the oracle: brute-force vote from the property text ---------------------------------------------
def fragment_calls(frag, dove_safe):
    """{position: base} - the ONE call the fragment contributes per reference position (no entry = no call)"""
    r1, r2 = frag['r1'], frag.get('r2')
    lo = hi = None
    if dove_safe:
        if r2 is None:
            return {}
        if r1['reverse'] and not r2['reverse']:
            lo, hi = r2['start'], G.reference_end(r1) - 1
        elif not r1['reverse'] and r2['reverse']:
            lo, hi = r1['start'], G.reference_end(r2) - 1
        else:
            return {}
    per_read = []
    for rd in (r1, r2):
        d = {}
        if rd is not None:
            for q, pos in G.aligned_pairs(rd):
                if lo is not None and not (lo <= pos <= hi):
                    continue
                d[pos] = (rd['seq'][q], rd['quals'][q])
        per_read.append(d)
    calls = {}
    for pos in set(per_read[0]) | set(per_read[1]):
        c1, c2 = per_read[0].get(pos), per_read[1].get(pos)
        if c1 is None or c2 is None:
            base = (c1 or c2)[0]
        elif c1[1] > c2[1]:
            base = c1[0]
        elif c2[1] > c1[1]:
            base = c2[0]
        elif c1[0] == c2[0]:
            base = c1[0]
        else:
            base = None                     # mates disagree at equal quality: undecidable
        if base is not None and base != 'N':
            calls[pos] = base
    return calls


def oracle(frags, dove_safe):
    votes = {}
    for f in frags:
        for pos, base in fragment_calls(f, dove_safe).items():
            votes.setdefault(pos, {}).setdefault(base, 0)
            votes[pos][base] += 1
    out = {}
    for pos, v in votes.items():
        ranked = sorted(v.items(), key=lambda kv: -kv[1])
        if len(ranked) == 1 or ranked[0][1] > ranked[1][1]:
            out[pos] = ranked[0][0]
    return out, votes


# ---- driving the real code ------------------------------------------------------------------------
def real_consensus(frags, dove_safe, single_as_pair=True, prior_queries=False):
    """Build a fresh Molecule by adding the fragments in the given order; return {pos: base} or raise."""
    from singlecellmultiomics.molecule import Molecule
    from singlecellmultiomics.fragment import Fragment
    mol = Molecule()
    for i, fd in enumerate(frags):
        reads = G.build_reads(REF, fd, f'f{i}', TAGS, single_as_pair=single_as_pair)
        frag = Fragment(reads, assignment_radius=1000, umi_hamming_distance=0)
        if not mol.add_fragment(frag):
            raise HarnessError(f'fragment {i} was not accepted into the molecule: {fd}')
    if len(mol) != len(frags):
        raise HarnessError('molecule size differs from the number of fragments added')
    if prior_queries:
        # history: the same molecule was asked before with other arguments (a filter that removes every call, and the other
        # dove_safe setting); answers to earlier questions must not leak into this one
        for kw in ({'min_phred_score': Q_HI + 5}, {'dove_safe': not dove_safe}, {'min_phred_score': Q_HI + 5, 'dove_safe': dove_safe}):
            try:
                mol.get_consensus(**kw)
            except Exception:
                pass
    res = mol.get_consensus(dove_safe=True) if dove_safe else mol.get_consensus()
    out = {}
    for key, base in res.items():
        contig, pos = key
        if contig != G.CONTIG:
            out[f'{contig}:{pos}'] = base
        else:
            out[int(pos)] = str(base)
    return out


def _canon(d):
    return sorted((str(k), v) for k, v in d.items())


def _run(frags, dove_safe, site, single_as_pair=True, prior_queries=False):
    """-> (result dict | None, [(signature, detail)])"""
    try:
        return real_consensus(frags, dove_safe, single_as_pair, prior_queries), []
    except HarnessError:
        raise
    except Exception as ex:
        return None, [(f'{site}:exception:{type(ex).__name__}', repr(ex))]


def _compare(got, want, votes, site):
    """clauses of the property for one evaluation"""
    out = []
    if got == want:
        return out
    for pos in sorted(set(got) | set(want), key=str):
        g, w = got.get(pos), want.get(pos)
        if g == w:
            continue
        v = votes.get(pos, {})
        detail = {'position': pos, 'got': g, 'expected': w, 'votes': v}
        if w is None:
            ranked = sorted(v.values(), reverse=True)
            if not ranked:
                sig = 'position-without-any-base-call-present'
            elif len(ranked) > 1 and ranked[0] == ranked[1]:
                sig = 'tie-reported-as-consensus'
            else:
                sig = 'unexpected-position-present'
        elif g is None:
            sig = 'majority-position-absent'
        else:
            sig = 'not-the-majority-base'
        out.append((f'{site}:{sig}', detail))
    seen = set()
    return [(s, d) for s, d in out if not (s in seen or seen.add(s))]


def _doubled(frags, how):
    if how == 'append':
        return list(frags) + list(frags)
    return [f for f in frags for _ in (0, 1)]


def _frags_of(case):
    if case['level'] == 'pos':
        return [_pos_kind(k) for k in case['word']]
    return [_win_letter(l, case['strand']) for l in case['letters']]


def check_case(case, base_result=None):
    """All clauses for one case. -> (violations, info)"""
    site = 'get_consensus' + ('[dove_safe]' if case.get('dove_safe') else '') + ':' + case['level']
    sap = not case.get('single_read_list')
    if not sap:
        # the one-element read list of the Fragment docstring, Fragment([read]); own call-site class
        site += ':single-read-list'
    dove = bool(case.get('dove_safe'))
    frags = _frags_of(case)
    want, votes = oracle(frags, dove)
    viols = []
    execs = 0
    if case.get('double'):
        # the doubled molecule must give what the plain one gives (and what the vote says)
        got, v = _run(_doubled(frags, case['double']), dove, site + ':doubled', sap)
        execs += 1
        viols += v
        if got is not None:
            if base_result is None:
                base_result, v0 = _run(frags, dove, site, sap)
                execs += 1
                viols += v0
            if base_result is not None and got != base_result:
                viols.append((f'{site}:doubling-changes-consensus', {'plain': _canon(base_result), 'doubled': _canon(got)}))
            viols += _compare(got, want, {p: {b: 2 * n for b, n in v_.items()} for p, v_ in votes.items()}, site + ':doubled')
    else:
        pq = bool(case.get('prior_queries'))
        if pq:
            site += ':after-other-queries'
        got, v = _run(frags, dove, site, sap, prior_queries=pq)
        execs += 1
        viols += v
        if got is not None:
            viols += _compare(got, want, votes, site)
            if base_result is not None and got != base_result:
                viols.append((f'{site}:order-dependent', {'this_order': _canon(got), 'other_order': _canon(base_result)}))
    nontrivial = any(len(v_) >= 2 for v_ in votes.values()) or any(
        _mates_disagree(f) for f in frags)
    info = {'got': got, 'want': want, 'votes': votes, 'execs': execs, 'nontrivial': nontrivial}
    seen = set()
    viols = [(s, d) for s, d in viols if not (s in seen or seen.add(s))]
    return viols, info


def _mates_disagree(f):
    if f.get('r2') is None:
        return False
    a = {pos: f['r1']['seq'][q] for q, pos in G.aligned_pairs(f['r1'])}
    b = {pos: f['r2']['seq'][q] for q, pos in G.aligned_pairs(f['r2'])}
    return any(a[p] != b[p] for p in set(a) & set(b))


# ---- bounds / shards ------------------------------------------------------------------------------
def bounds(tier):
    if tier == 'quick':
        return {'pos_kinds': POS_KIND_NAMES[:8], 'pos_max_fragments': 5, 'pos_extra': {'kinds': POS_KIND_NAMES, 'max_fragments': 4},
                'window_positions': 3, 'window_max_fragments': 3,
                'window_alphabet_sizes': {str(l): len(window_alphabet(l, tier)) for l in (1, 2, 3)},
                'strands': [False, True], 'dove_safe': [False, True], 'window_orders': ['as listed', 'reversed'],
                'doubling': ['append', 'interleave']}
    return {'pos_kinds': POS_KIND_NAMES[:8], 'pos_max_fragments': 7, 'pos_extra': {'kinds': POS_KIND_NAMES, 'max_fragments': 5},
            'window_positions': 3, 'window_max_fragments': 3,
            'window_alphabet_sizes': {str(l): len(window_alphabet(l, tier)) for l in (1, 2, 3)},
            'strands': [False, True], 'dove_safe': [False, True], 'window_orders': ['as listed', 'reversed'],
            'doubling': ['append', 'interleave']}


def _pos_multisets(tier):
    """(multiset as sorted tuple).  Main alphabet: 8 kinds up to N; extra alphabet: all 13 kinds up to a smaller N,
    only the multisets that use at least one of the extra kinds (so the two families do not overlap)."""
    b = bounds(tier)
    out = []
    for n in range(1, b['pos_max_fragments'] + 1):
        out.extend(itertools.combinations_with_replacement(range(8), n))
    for n in range(1, b['pos_extra']['max_fragments'] + 1):
        for ms in itertools.combinations_with_replacement(range(len(POS_KIND_NAMES)), n):
            if max(ms) >= 8:
                out.append(ms)
    return out


N_POS_SHARDS = 48
N_WIN_SHARDS = 16


def shards(tier):
    out = [('pos', i) for i in range(N_POS_SHARDS)]
    out.append(('list1',))
    for level in (1, 2, 3):
        for i in range(N_WIN_SHARDS):
            out.append(('win', level, i))
    return out


def _distinct_permutations(ms):
    seen = set()
    for p in itertools.permutations(ms):
        if p not in seen:
            seen.add(p)
            yield p


def run_shard(shard, tier, acc):
    if shard[0] == 'list1':
        # single-end fragments given as Fragment([read]) (class docstring) instead of [read, None]
        for n in (1, 2, 3):
            for word in itertools.product(range(4), repeat=n):
                case = {'level': 'pos', 'word': list(word), 'single_read_list': True}
                viols, info = check_case(case)
                _report(acc, case, viols, info)
        return
    if shard[0] == 'pos':
        # heavy multisets first in the list would unbalance: deal round-robin
        mss = _pos_multisets(tier)
        for idx in range(shard[1], len(mss), N_POS_SHARDS):
            _run_pos_multiset(mss[idx], acc)
    else:
        _, level, part = shard
        alpha = window_alphabet(level, tier)
        combos = itertools.combinations_with_replacement(range(len(alpha)), level)
        for idx, combo in enumerate(combos):
            if idx % N_WIN_SHARDS != part:
                continue
            letters = [alpha[i] for i in combo]
            for strand in (False, True):
                for dove in (False, True):
                    base = None
                    orders = [letters] if level == 1 else [letters, letters[::-1]]
                    for oi, order in enumerate(orders):
                        if oi and order == letters:
                            continue
                        case = {'level': 'win', 'letters': order, 'strand': strand, 'dove_safe': dove}
                        viols, info = check_case(case, base_result=base)
                        if base is None:
                            base = info['got']
                        _report(acc, case, viols, info)


def _run_pos_multiset(ms, acc):
    base = None
    for word in _distinct_permutations(ms):
        case = {'level': 'pos', 'word': list(word)}
        viols, info = check_case(case, base_result=base)
        if base is None:
            base = info['got']
        _report(acc, case, viols, info)
    for how in ('append', 'interleave'):
        case = {'level': 'pos', 'word': list(ms), 'double': how}
        viols, info = check_case(case, base_result=base)
        _report(acc, case, viols, info, states=0)
    case = {'level': 'pos', 'word': list(ms), 'prior_queries': True}
    viols, info = check_case(case, base_result=None)
    _report(acc, case, viols, info, states=0)


def _report(acc, case, viols, info, states=1):
    if case['level'] == 'pos':
        v = info['votes'].get(P, {})
        w = info['want'].get(P)
        if w is not None:
            outcome = f'pos:{w}'
        elif not v:
            outcome = 'pos:absent-no-call'
        else:
            outcome = 'pos:absent-tie'
        if case.get('double'):
            outcome += ':doubled'
    else:
        n_present = len(info['want'])
        n_voted = len(info['votes'])
        outcome = f"win:{'dove' if case['dove_safe'] else 'plain'}:present={n_present}/voted={n_voted}"
    acc.case(case, transitions=info['execs'], execs=info['execs'], nontrivial=info['nontrivial'] and states > 0,
             outcome=outcome, states=states)
    for sig, d in viols:
        acc.violation(sig, case, d)


def replay(case):
    base = None
    if not case.get('double'):
        # order clause: compare against the canonical (sorted) insertion order of the same fragments
        if case['level'] == 'pos':
            other = dict(case, word=sorted(case['word']))
        else:
            other = dict(case, letters=case['letters'][::-1])
        if other != case:
            base, _ = _run(_frags_of(other), bool(case.get('dove_safe')), 'x', not case.get('single_read_list'))
    viols, _ = check_case(case, base_result=base)
    return viols
