"""C06 - molecule assignment equals the ground-truth duplicate structure.

Every coordinate-ordered word (all orders among equal coordinates) of fragment letters with known truth
(cell, site, strand, UMI) goes through the real MoleculeIterator with NlaIII / CHIC / plain classes for the
full product of UMI Hamming distance x radius x fragment cap x pooling.  Then write_tags() on every
molecule: duplicate flags, RC/af/TF; every input duplicate-flag pattern; and a second pass over the
tagged reads (re-tagging is idempotent).

Extension space (audit): per class a second alphabet = 3 core letters + letters for dimensions the base alphabet lacks
(second contig, single-end copies on both strands, rejected fragments: no CATG / qcfail input / R2 without R1, UMI of
another length, rS random-primer tag, a site at radius+1 (and one exactly at the radius), an R2-only fragment next to a
forward fragment starting at the same coordinate, allele tags with use_allele_tag) - all words with >=1 new letter,
x distance x cap {None,1} x pooling x yield_invalid {off,on} (words with a rejected fragment), all duplicate-flag
patterns, second pass.  Tags are read from EVERY record (both mates).  A deep same-site slice (one key, 4 UMIs, all
sequences of 4 / 5 fragments) exercises the moving representative UMI.
"""
import itertools

from gen.frags import nla_reads, chic_reads

ID = 'C06'
RULE = ('all multisets of <=n letters (molecule key x UMI x variant) in delivery order with all tie orders x class '
        '{nla, chic r=0, chic r=2, plain} x umi_hamming_distance {0,1,2} x max_associated_fragments {None,1,2} x pooling {0,1}; '
        'all 2^n input duplicate-flag patterns in the default configuration; second tagging pass on the tagged reads; '
        'non-trivial = word with >=2 fragments of one true molecule plus >=1 fragment of another; '
        'states = (word, configuration) pairs, transitions = fragments pushed; '
        'EXTENSION: per class {nla, chic0, chic2, plain, nla+use_allele_tag} all multisets of <=n letters over (core + class-specific new letters) '
        'with >=1 new letter x distance {0,1,2} x cap {None,1} x pooling {0,1} x yield_invalid {0,1} (only words holding a rejected fragment), '
        'all duplicate-flag patterns in the default configuration where a flagged fragment also carries the RC/af/TF tags of the earlier run, second pass; non-trivial = >=2 fragments; '
        'DEEP: all sequences of exactly m fragments of one (cell, site, strand) over 4 UMIs x 4 classes x distance {1,2} x pooling {0,1}, '
        'non-trivial = the representative UMI of a molecule differs from the UMI of its first fragment')
ASSUMPTIONS = [
    'exactness (partition == classes of identical cell/site/strand/UMI) is demanded for distance 0, no fragment cap, site-exact classes (nla, chic r=0)',
    'soundness for radius>0 / distance>0 is connectivity of the site graph (edges <= radius) and of the UMI graph (edges <= distance)',
    'for the plain Fragment class only cell, strand and UMI linkage are judged (it has no cut site)',
    'an N in a UMI is an uncalled base and is not counted as a mismatch when distance > 0; with distance 0 UMIs must be identical strings',
    'overflow fragments (beyond max_associated_fragments) are emitted as their own molecules, as the iterator documents',
    'a cut site is (contig, coordinate): sites on different contigs are never within any radius',
    'UMIs of different lengths: the distance is mismatches over the common prefix + the length difference (lenient); the completeness clause is not applied to them',
    'rejected fragments (no CATG for NlaIII, qcfail input reads, no R1 for NlaIII/CHIC) are not part of the partition: they must never share a molecule '
    'with another fragment and must not change the partition of the valid ones; with yield_invalid=True each is emitted exactly once as a molecule of size 1 '
    '(documented), whose flags/tags obey the same clauses; with yield_invalid=False nothing is demanded about them except at-most-once',
    'with use_allele_tag=True the allele tag (DA) is part of the molecule key: fragments tagged with different alleles never merge and, '
    'for distance 0, the molecules are exactly the classes of (cell, site, strand, UMI, allele); whether an untagged fragment may join a tagged one is left open '
    '(no exactness clause for words where one (cell, site, strand, UMI) class holds both)',
    'a single-end copy (R1 only) has the cell, site, strand and UMI of its molecule; an R2-only fragment is valid only for the plain class, '
    'where its strand is the strand of its molecule (the opposite of the R2 alignment)',
    'af / TF / RC and the duplicate flag are demanded on every record (both mates carry the same values)',
]

SITE = 5040    # chosen so that the R2 ends of the reverse-strand copies (4999 / 5004) straddle a round coordinate
# key -> (cell, site offset, reverse)
KEYS = {'K0': (1, 0, False), 'K1': (1, 0, True), 'K2': (2, 0, False), 'K3': (1, 1, False), 'K4': (1, 3000, False),
        # extension keys: K5 = the coordinates of K0 on the second contig; K6 = radius+1 away from K0 and exactly the radius (2)
        # away from K3; K7 = forward fragment whose first base is the first base of the R2 of a K1 (reverse) copy
        'K5': (1, 0, False), 'K6': (1, 3, False), 'K7': (1, -36, False)}
KEY_CONTIG = {'K5': 'chr2'}
# letter = (key, umi, variant)
LETTERS = [
    ('K0', 'AAA', 'base'), ('K0', 'AAC', 'base'), ('K0', 'ACC', 'base'), ('K0', 'NAA', 'base'),
    ('K0', 'AAA', 'r2shift'), ('K0', 'AAA', 'clip'), ('K0', 'AAA', 'error'), ('K0', 'AAC', 'r2shift'),
    ('K1', 'AAA', 'base'), ('K1', 'AAC', 'base'), ('K1', 'AAA', 'clip'), ('K1', 'AAA', 'r2shift'),
    ('K2', 'AAA', 'base'), ('K2', 'AAC', 'base'),
    ('K3', 'AAA', 'base'), ('K3', 'AAC', 'base'),
    ('K4', 'AAA', 'base'),
]
CLASSES = ['nla', 'chic0', 'chic2', 'plain']
# ---- extension alphabet (indices continue after the base letters)
EXT_LETTERS = [
    ('K5', 'AAA', 'base'),       # 17 same coordinates, other contig
    ('K0', 'AAA', 'single'),     # 18 single-end copy (R1 only), forward
    ('K1', 'AAA', 'single'),     # 19 single-end copy, reverse
    ('K0', 'AAA', 'invalid'),    # 20 rejected: no CATG (nla) / qcfail input reads (chic, plain)
    ('K1', 'AAA', 'r2only'),     # 21 R2 without R1: rejected by nla / chic, a valid reverse-strand fragment for plain
    ('K0', 'CA', 'base'),        # 22 UMI of another length (mismatch inside the common prefix)
    ('K0', 'AAA', 'rs'),         # 23 random primer given by the rS tag (with an N)
    ('K6', 'AAA', 'base'),       # 24 site at radius+1 of K0, exactly at the radius of K3
    ('K7', 'AAA', 'base'),       # 25 forward fragment starting where the R2 of letter 21 starts
    ('K0', 'AAA', 'da_a'),       # 26 allele tag a
    ('K0', 'AAA', 'da_b'),       # 27 allele tag b
]
ALL = LETTERS + EXT_LETTERS
NB = len(LETTERS)
CORE = [0, 1, 8]
# class -> (letters already covered by the base space, new letters)
EXT = {
    'nla': (CORE, [17, 18, 19, 20, 21, 22, 23]),
    'chic0': (CORE, [17, 18, 19, 20, 21, 22]),
    'chic2': (CORE + [14], [24, 17, 18]),
    'plain': (CORE, [17, 18, 19, 20, 21, 25]),
    'nla_al': ([], CORE + [26, 27]),
    # NlaIII with fragment_class_args library_name (bamtagmultiome -libname): the cells are named <run>_<plate>_<well> and differ
    # in the plate only; letters: the core ones (cell 1) and the same site / UMIs in cell 2
    'nla_lib': ([], CORE + [12, 13]),
}
DEEP = [0, 1, 2, 3]     # K0 x {AAA, AAC, ACC, NAA}: one delivery coordinate, every sequence is a legal order


def bounds(tier):
    return {'max_fragments': 3 if tier == 'quick' else 4, 'letters': LETTERS, 'classes': CLASSES, 'umi_hamming_distance': [0, 1, 2],
            'max_associated_fragments': [None, 1, 2], 'pooling': [0, 1],
            'configs_for_longest_words': 'full product' if tier == 'quick' else 'configurations within distance 1 of (d=1, cap None, pooling 1) for n=4',
            'extension': {'letters': {str(NB + i): list(l) for i, l in enumerate(EXT_LETTERS)},
                          'alphabet_per_class(core,new)': {k: [list(v[0]), list(v[1])] for k, v in EXT.items()},
                          'max_fragments': 3 if tier == 'quick' else 4, 'umi_hamming_distance': [0, 1, 2], 'max_associated_fragments': [None, 1],
                          'pooling': [0, 1], 'yield_invalid': [False, True], 'assignment_radius(chic)': [0, 2], 'use_allele_tag(nla_al)': True, 'library_name(nla_lib)': 'LIBX with cells RUN7_P<cell>_12',
                          'duplicate_flag_patterns': 'all 2^n - 1 in (d=1, cap None, pooling 1); flagged fragments carry stale tags ' + repr(STALE_TAGS)},
            'deep_same_site': {'letters': DEEP, 'fragments': 4 if tier == 'quick' else 5, 'umi_hamming_distance': [1, 2], 'pooling': [0, 1],
                               'classes': CLASSES}}


def _break_motif(r1):
    """the read does not start with CATG any more (read orientation): C A T G -> C T T G"""
    q = r1.query_qualities
    s = r1.query_sequence
    if r1.is_reverse:
        s = s[:-3] + 'A' + s[-2:]     # ...CATG in BAM orientation is the reverse complement of the read start
    else:
        s = s[:1] + 'T' + s[2:]
    r1.query_sequence = s
    r1.query_qualities = q


STALE_TAGS = {'RC': 5, 'af': 6, 'TF': 6}     # what an earlier run wrote on the 6th fragment of a molecule of six


def make(li, i, cls, dupflag=False, stale=False):
    key, umi, variant = ALL[li]
    cell, off, rev = KEYS[key]
    contig = KEY_CONTIG.get(key, 'chr1')
    length = 40
    kw = {}
    if variant == 'r2shift':
        kw['r2_end_shift'] = 5
    if variant == 'single':
        length = 20          # = read length: the generators then build R1 only
    if variant == 'rs':
        kw['extra_tags'] = {'rS': 'ACNTAC'}
    if variant in ('da_a', 'da_b'):
        kw['extra_tags'] = {'DA': variant[-1]}
    if cls in ('nla', 'plain', 'nla_al', 'nla_lib'):
        if variant == 'clip':
            kw['clip'] = 3
        if variant == 'error':
            kw['error'] = True
        reads = nla_reads(f'f{i}', contig, SITE + off, length, cell, umi, reverse=rev, duplicate_flag=dupflag, **kw)
    else:
        if variant == 'clip':
            kw['clip'] = 3
        reads = chic_reads(f'f{i}', contig, SITE + off, length, cell, umi, reverse=rev, duplicate_flag=dupflag, **kw)
    if variant == 'invalid':
        if cls in ('nla', 'nla_al', 'nla_lib'):
            _break_motif(reads[0])
        else:
            for r in reads:
                if r is not None:
                    r.is_qcfail = True
    if cls == 'nla_lib':
        for r in reads:
            if r is not None:
                r.set_tag('SM', f'RUN7_P{cell}_12')
    if variant == 'r2only':
        reads = [None, reads[1]]
    if stale and dupflag:
        for r in reads:
            if r is not None:
                for k, v in STALE_TAGS.items():
                    r.set_tag(k, v)
    return reads


def is_rejected(li, cls):
    variant = ALL[li][2]
    return variant == 'invalid' or (variant == 'r2only' and cls != 'plain')


_DELIV = {}


def deliv(li):
    """(contig index, position) at which a coordinate-sorted reader has seen all mates of the fragment"""
    if li not in _DELIV:
        rs = [r for r in make(li, 0, 'nla') if r is not None]
        _DELIV[li] = (rs[0].reference_id, max(r.reference_start for r in rs))
    return _DELIV[li]


def orders(multiset):
    groups = {}
    for li in multiset:
        groups.setdefault(deliv(li), []).append(li)
    per = [sorted(set(itertools.permutations(groups[k]))) for k in sorted(groups)]
    for combo in itertools.product(*per):
        yield tuple(x for g in combo for x in g)


def classes_of(cls):
    from singlecellmultiomics.molecule import NlaIIIMolecule, CHICMolecule, Molecule
    from singlecellmultiomics.fragment import NlaIIIFragment, CHICFragment, Fragment
    if cls == 'nla':
        return NlaIIIMolecule, NlaIIIFragment, {}
    if cls == 'nla_al':
        return NlaIIIMolecule, NlaIIIFragment, {'use_allele_tag': True}
    if cls == 'nla_lib':
        return NlaIIIMolecule, NlaIIIFragment, {'library_name': 'LIBX'}
    if cls == 'chic0':
        return CHICMolecule, CHICFragment, {'assignment_radius': 0}
    if cls == 'chic2':
        return CHICMolecule, CHICFragment, {'assignment_radius': 2}
    return Molecule, Fragment, {'assignment_radius': 0}


def hamming(a, b):
    # an N is an uncalled base: it is not counted as a mismatch (lenient reading, the property does not say)
    return sum(x != y and x != 'N' and y != 'N' for x, y in zip(a, b)) + abs(len(a) - len(b))


def site_distance(a, b):
    """sites are (contig, offset)"""
    if a[0] != b[0]:
        return float('inf')
    return abs(a[1] - b[1])


def connected(items, edge):
    items = list(items)
    if not items:
        return True
    seen = {0}
    stack = [0]
    while stack:
        i = stack.pop()
        for j in range(len(items)):
            if j not in seen and edge(items[i], items[j]):
                seen.add(j)
                stack.append(j)
    return len(seen) == len(items)


def iterate(reads, cls, d, cap, pooling, yield_invalid=False):
    from singlecellmultiomics.molecule import MoleculeIterator
    mc, fc, fargs = classes_of(cls)
    fargs = dict(fargs)
    fargs['umi_hamming_distance'] = d
    margs = {}
    if cap is not None:
        margs['max_associated_fragments'] = cap
    it = MoleculeIterator(reads, molecule_class=mc, fragment_class=fc, check_eject_every=None, pooling_method=pooling,
                          molecule_class_args=margs, fragment_class_args=fargs, perform_qflag=False, yield_invalid=yield_invalid)
    return list(it)


def snapshot(reads):
    out = {}
    for pair in reads:
        for r in pair:
            if r is None:
                continue
            # (tag, value, BAM value type) triples as a set: exact comparison, independent of the order of the tags in the record
            out[(r.query_name, r.is_read2)] = (r.is_duplicate, r.is_qcfail,
                                               frozenset(t for t in r.get_tags(with_value_type=True) if t[0] != 'mi'))
    return out


def check_word(word, cls, d, cap, pooling, dup_pattern=0, second_pass=False, yield_invalid=False, stale=False, earlier=None):
    """returns (violations, info).  earlier = class of an EARLIER tagging run over the same reads (CHIC with another assignment
    radius): its tags (DS of a merged molecule, RC, af, TF, duplicate bits) are input history and must not decide anything"""
    n = len(word)
    reads = [make(li, i, cls, dupflag=bool((dup_pattern >> i) & 1), stale=stale) for i, li in enumerate(word)]
    viol = {}
    pre = f'{cls}' + (f':tagged-before-as-{earlier}' if earlier else '')
    if earlier:
        try:
            for m in iterate(reads, earlier, d, None, pooling, False):
                m.write_tags()
        except Exception:
            pass            # the earlier run is judged on its own
    try:
        mols = iterate(reads, cls, d, cap, pooling, yield_invalid)
    except Exception as ex:
        return [(f'{pre}:iterator:exception:{type(ex).__name__}', repr(ex))], {}
    truth = {}
    rejected = set()
    for i, li in enumerate(word):
        key, umi, variant = ALL[li]
        cell, off, rev = KEYS[key]
        if is_rejected(li, cls):
            rejected.add(f'f{i}')
            continue
        allele = None
        if cls == 'nla_al':
            allele = variant[-1] if variant in ('da_a', 'da_b') else 'untagged'
        truth[f'f{i}'] = (cell, (KEY_CONTIG.get(key, 'chr1'), off), rev, umi, allele)
    part_all = []
    for m in mols:
        names = sorted({r.query_name for r in m.iter_reads()})
        part_all.append(names)
    # ---- rejected fragments: never together with another fragment, at most once, exactly once when they are to be yielded
    part = []
    for g in part_all:
        if any(x in rejected for x in g):
            if len(g) > 1:
                viol[f'{pre}:rejected-fragment-shares-a-molecule'] = {'group': g, 'rejected': sorted(rejected)}
        else:
            part.append(g)
    if rejected:
        emitted = [x for g in part_all for x in g if x in rejected]
        if len(emitted) != len(set(emitted)):
            viol[f'{pre}:rejected-fragment-emitted-twice'] = {'partition': part_all}
        if yield_invalid and set(emitted) != rejected:
            viol[f'{pre}:yield_invalid:rejected-fragment-not-emitted'] = {'partition': part_all, 'rejected': sorted(rejected)}
    flat = [x for g in part for x in g]
    if sorted(flat) != sorted(truth):
        viol[f'{pre}:fragment-lost-or-emitted-twice'] = {'partition': part_all}
    radius = {'nla': 0, 'nla_al': 0, 'nla_lib': 0, 'chic0': 0, 'chic2': 2, 'plain': 0}[cls]
    exact_cls = cls in ('nla', 'chic0', 'nla_al', 'nla_lib')
    if cls == 'nla_al':
        # whether a fragment WITHOUT an allele tag may join the molecule of a tagged one is left open: exactness is only judged
        # when no (cell, site, strand, UMI) class holds tagged and untagged fragments together
        seen = {}
        for t in truth.values():
            seen.setdefault(t[:4], set()).add(t[4] == 'untagged')
        if any(len(v) > 1 for v in seen.values()):
            exact_cls = False
    for g in part:
        ts = [truth[x] for x in g if x in truth]
        if len({t[0] for t in ts}) > 1:
            viol[f'{pre}:molecule-mixes-cells'] = {'group': g}
        if len({t[2] for t in ts}) > 1:
            viol[f'{pre}:molecule-mixes-strands'] = {'group': g}
        if cls != 'plain' and not connected(ts, lambda a, b: site_distance(a[1], b[1]) <= radius):
            viol[f'{pre}:molecule-mixes-sites-beyond-radius'] = {'group': g, 'radius': radius}
        if cls == 'plain' and len({t[1][0] for t in ts}) > 1:
            viol[f'{pre}:molecule-mixes-contigs'] = {'group': g}
        if not connected(ts, lambda a, b: hamming(a[3], b[3]) <= d):
            viol[f'{pre}:molecule-links-umis-beyond-distance'] = {'group': g, 'd': d}
        if len({t[4] for t in ts if t[4] != 'untagged'}) > 1:
            viol[f'{pre}:molecule-mixes-alleles'] = {'group': g}
    if d == 0 and cap is None and exact_cls:
        want = {}
        for name, t in truth.items():
            want.setdefault(t, []).append(name)
        want_part = sorted(sorted(v) for v in want.values())
        if sorted(part) != want_part:
            merged = any(len({truth[x] for x in g if x in truth}) > 1 for g in part)
            viol[f'{pre}:d0:' + ('distinct-molecules-merged' if merged else 'one-molecule-split')] = {
                'got': sorted(part), 'want': want_part}
    if d == 0 and cap is not None and exact_cls:
        # documented behaviour of the cap: a molecule takes at most `cap` fragments, every further fragment of that
        # molecule is emitted as its own (overflow) molecule - and fragments of OTHER molecules are not affected
        want = {}
        order = []
        for i in range(n):
            if f'f{i}' not in truth:
                continue
            t = truth[f'f{i}']
            if t not in want:
                want[t] = []
                order.append(t)
            want[t].append(f'f{i}')
        want_part = []
        for t in order:
            names = want[t]
            want_part.append(sorted(names[:cap]))
            for x in names[cap:]:
                want_part.append([x])
        if sorted(part) != sorted(want_part):
            viol[f'{pre}:d0:capped:partition-differs-from-first-cap-fragments-plus-singletons'] = {
                'got': sorted(part), 'want': sorted(want_part), 'cap': cap}
    # completeness for PCR/sequencing errors in the UMI: fragments of one (cell, site, strand) whose UMIs are ALL pairwise
    # within the allowed distance (no N involved, one length) form one molecule, whatever representative the greedy assignment uses
    if cap is None and exact_cls and d > 0:
        bykey = {}
        for name, t in truth.items():
            bykey.setdefault((t[0], t[1], t[2], t[4]), []).append(name)
        where = {x: gi for gi, g in enumerate(part) for x in g}
        for key, names in bykey.items():
            umis = [truth[x][3] for x in names]
            if any('N' in u for u in umis) or len({len(u) for u in umis}) > 1:
                continue
            if all(hamming(a, b) <= d for a in umis for b in umis) and len({where.get(x) for x in names}) > 1:
                viol[f'{pre}:fragments-with-all-umis-within-distance-split'] = {'names': names, 'umis': umis, 'd': d, 'partition': part}
    if cls == 'plain' and cap is None and d == 0:
        # (distance 0 only: with a distance > 0 first-match assignment can put a copy into the molecule of a neighbouring UMI)
        # plain fragments have no cut site; copies of one molecule that share their R1 anchor exactly (same key and UMI,
        # unclipped: variants base / other R2 end / sequencing error / single-end) match through that coordinate whatever else the
        # molecule already holds, so they can never be split
        where = {x: gi for gi, g in enumerate(part) for x in g}
        anchors = {}
        for i, li in enumerate(word):
            key, umi, variant = ALL[li]
            if variant in ('base', 'r2shift', 'error', 'single'):
                anchors.setdefault((key, umi), []).append(f'f{i}')
        clipped_keys = {ALL[li][0] for li in word if ALL[li][2] in ('clip', 'r2only')}
        for k, names in anchors.items():
            if k[0] in clipped_keys:
                continue      # a clipped (or R2-only) copy matches through the OTHER coordinate; first-match assignment may then split (by design)
            if len({where.get(x) for x in names}) > 1:
                viol[f'{pre}:copies-sharing-their-anchor-coordinate-split'] = {'key': k, 'names': names, 'partition': part}
    # ---- tags and flags
    try:
        for m in mols:
            m.write_tags()
    except Exception as ex:
        viol[f'{pre}:write_tags:exception:{type(ex).__name__}'] = repr(ex)
        return [(s, x) for s, x in viol.items()], {}
    inflag = 'flagged-input' if dup_pattern else 'clean-input'
    rep_changed = False
    for m in mols:
        frs = list(m)
        nd = 0
        ranks = []
        names_m = sorted({r.query_name for r in m.iter_reads()})
        is_rejected_mol = any(x in rejected for x in names_m)
        if frs and m.umi != frs[0].umi:
            rep_changed = True
        for f in frs:
            rs = [r for r in f if r is not None]
            dups = {r.is_duplicate for r in rs}
            if len(dups) > 1:
                viol[f'{pre}:mates-disagree-on-duplicate-flag'] = {}
            if not any(dups):
                nd += 1
            rcs = {(r.get_tag('RC') if r.has_tag('RC') else None) for r in rs}
            if len(rcs) > 1:
                viol[f'{pre}:mates-disagree-on-RC'] = {'RC': sorted(rcs, key=repr)}
            ranks.append(rs[0].get_tag('RC') if rs[0].has_tag('RC') else None)
            for r in rs:      # every record carries the counts
                af = r.get_tag('af') if r.has_tag('af') else None
                tf = r.get_tag('TF') if r.has_tag('TF') else None
                if af != len(frs):
                    viol[f'{pre}:af-differs-from-molecule-size'] = {'af': af, 'n': len(frs), 'read2': r.is_read2}
                if tf is None or tf < len(frs) or (cap is None and tf != len(frs)):
                    viol[f'{pre}:TF-inconsistent-with-molecule-size'] = {'TF': tf, 'n': len(frs), 'cap': cap, 'read2': r.is_read2}
                elif is_rejected_mol:
                    if tf != len(frs):     # a rejected fragment is never offered to a molecule, so nothing overflowed into it
                        viol[f'{pre}:rejected-fragment:TF-differs-from-molecule-size'] = {'TF': tf, 'n': len(frs)}
                elif cap is not None and d == 0 and exact_cls:
                    # total fragments of a capped molecule = fragments it holds + fragments it refused = size of the true class;
                    # an overflow singleton counts only itself
                    if names_m[0] not in truth:
                        continue
                    true_n = sum(1 for x in truth if truth[x] == truth[names_m[0]])
                    first_of_class = min(int(x[1:]) for x in truth if truth[x] == truth[names_m[0]])
                    is_main = any(int(x[1:]) == first_of_class for x in names_m)
                    want_tf = true_n if is_main else len(frs)
                    if tf != want_tf:
                        viol[f'{pre}:d0:capped:TF-differs-from-true-fragment-count'] = {'TF': tf, 'want': want_tf, 'molecule': names_m, 'cap': cap}
        if nd != 1:
            viol[f'{pre}:{inflag}:molecule-with-{"no" if nd == 0 else "several"}-non-duplicate-fragments'] = {
                'fragments': len(frs), 'non_duplicate': nd, 'dup_pattern': dup_pattern}
        if sorted(x for x in ranks if x is not None) != list(range(len(frs))) or None in ranks:
            viol[f'{pre}:RC-not-a-ranking-of-the-fragments'] = {'ranks': ranks}
    info = {'molecules': len(mols), 'rep_changed': rep_changed, 'rejected': len(rejected)}
    if second_pass and not viol:
        snap1 = snapshot(reads)
        try:
            mols2 = iterate(reads, cls, d, cap, pooling, yield_invalid)
            for m in mols2:
                m.write_tags()
        except Exception as ex:
            viol[f'{pre}:second-pass:exception:{type(ex).__name__}'] = repr(ex)
            return [(s, x) for s, x in viol.items()], info
        snap2 = snapshot(reads)
        if snap1 != snap2:
            diff = [(k, snap1[k][:2] + (sorted(snap1[k][2], key=repr),), snap2[k][:2] + (sorted(snap2[k][2], key=repr),))
                    for k in snap1 if snap1[k] != snap2.get(k)][:2]
            what = 'flags' if any(a[:2] != b[:2] for _, a, b in diff) else 'tags'
            viol[f'{pre}:retagging-changes-{what}'] = {'diff': diff}
    return [(s, x) for s, x in viol.items()], info


def configs(tier, n):
    full = list(itertools.product(CLASSES, (0, 1, 2), (None, 1, 2), (0, 1)))
    if tier == 'quick' or n <= 3:
        return full
    base = (1, None, 1)
    out = []
    for cls, d, cap, p in full:
        dist = (d != base[0]) + (cap != base[1]) + (p != base[2])
        if dist <= 1:
            out.append((cls, d, cap, p))
    return out


def ext_multisets(cls, n):
    old, new = EXT[cls]
    letters = sorted(set(old) | set(new))
    for k in range(1, n + 1):
        for ms in itertools.combinations_with_replacement(letters, k):
            if any(li in new for li in ms):
                yield ms


def shards(tier):
    n = bounds(tier)['max_fragments']
    ms = []
    for k in range(1, n + 1):
        ms.extend(itertools.combinations_with_replacement(range(len(LETTERS)), k))
    G = 8
    out = [ms[i:i + G] for i in range(0, len(ms), G)]
    # extension space: (class, multiset) in groups; one class per shard so that consecutive cases of a process mix configurations of one class
    for cls in EXT:
        ems = [('ext', cls, m) for m in ext_multisets(cls, n)]
        GE = 6
        out.extend(ems[i:i + GE] for i in range(0, len(ems), GE))
    # deep same-site slice: all sequences of exactly m fragments, sharded by the first two letters
    m = bounds(tier)['deep_same_site']['fragments']
    for a in DEEP:
        for b in DEEP:
            out.append([('deep', a, b, m)])
    return out


def true_structure(word):
    t = {}
    for li in word:
        key, umi, variant = ALL[li]
        t[(key, umi)] = t.get((key, umi), 0) + 1
    return t


def run_ext(item, tier, acc):
    _, cls, ms = item
    for word in orders(ms):
        n = len(word)
        has_rejected = any(is_rejected(li, cls) for li in word)
        tag = '+'.join(sorted({ALL[li][2] if ALL[li][2] != 'base' else ALL[li][0] + ALL[li][1] for li in word if li >= NB or cls == 'nla_al'}))
        for yi in ((False, True) if has_rejected else (False,)):
            for d, cap, pooling in itertools.product((0, 1, 2), (None, 1), (0, 1)):
                case = {'word': list(word), 'cls': cls, 'd': d, 'cap': cap, 'pooling': pooling, 'dup_pattern': 0, 'second_pass': True,
                        'yield_invalid': yi}
                viols, info = check_word(word, cls, d, cap, pooling, 0, second_pass=True, yield_invalid=yi)
                acc.case(case, transitions=2 * n, nontrivial=n >= 2,
                         outcome=f"ext:{cls}:{tag}:yi{int(yi)}:d{d}:mols={info.get('molecules')}/{n}")
                acc.count('ext:cases')
                for li in set(word):
                    if li >= NB:
                        acc.count(f'ext:cases-with-letter:{"/".join(ALL[li])}')
                if yi:
                    acc.count('ext:cases-yield_invalid-with-rejected-fragment')
                for sig, det in viols:
                    acc.violation(sig, case, det)
                if cls in ('chic0', 'chic2') and cap is None and not yi:
                    # the same reads were tagged before with the OTHER assignment radius (a merged molecule wrote its outermost
                    # site into DS of all its fragments): the run under test must group by what the reads say, not by old tags
                    earlier = 'chic2' if cls == 'chic0' else 'chic0'
                    case2 = dict(case, earlier=earlier)
                    viols, info = check_word(word, cls, d, cap, pooling, 0, second_pass=True, yield_invalid=yi, earlier=earlier)
                    acc.case(case2, transitions=3 * n, nontrivial=n >= 2,
                             outcome=f"ext:{cls}:after-{earlier}:d{d}:mols={info.get('molecules')}/{n}")
                    acc.count('ext:cases-tagged-before-with-another-radius')
                    for sig, det in viols:
                        acc.violation(sig, case2, det)
        yi = has_rejected        # the tagger yields rejected fragments; flags of fragments that are never emitted are not judged
        for pat in range(1, 1 << n):
            case = {'word': list(word), 'cls': cls, 'd': 1, 'cap': None, 'pooling': 1, 'dup_pattern': pat, 'second_pass': True,
                    'yield_invalid': yi, 'stale': True}
            viols, info = check_word(word, cls, 1, None, 1, pat, second_pass=True, yield_invalid=yi, stale=True)
            acc.case(case, transitions=2 * n, nontrivial=n >= 2, outcome=f'ext:{cls}:flagpattern:mols={info.get("molecules")}/{n}')
            acc.count('ext:cases-flagged-input-with-stale-RC-af-TF')
            for sig, det in viols:
                acc.violation(sig, case, det)


def run_deep(item, tier, acc):
    _, a, b, m = item
    for rest in itertools.product(DEEP, repeat=m - 2):
        word = (a, b) + rest
        for cls in CLASSES:
            for d, pooling in itertools.product((1, 2), (0, 1)):
                case = {'word': list(word), 'cls': cls, 'd': d, 'cap': None, 'pooling': pooling, 'dup_pattern': 0, 'second_pass': True}
                viols, info = check_word(word, cls, d, None, pooling, 0, second_pass=True)
                acc.case(case, transitions=2 * m, nontrivial=bool(info.get('rep_changed')),
                         outcome=f"deep:{cls}:d{d}:rep-changed={info.get('rep_changed')}:mols={info.get('molecules')}/{m}")
                acc.count('deep:cases')
                if info.get('rep_changed'):
                    acc.count('deep:cases-where-a-representative-umi-moved')
                for sig, det in viols:
                    acc.violation(sig, case, det)


def run_shard(shard, tier, acc):
    for ms in shard:
        if ms and ms[0] == 'ext':
            run_ext(ms, tier, acc)
            continue
        if ms and ms[0] == 'deep':
            run_deep(ms, tier, acc)
            continue
        for word in orders(ms):
            n = len(word)
            ts = true_structure(word)
            nontrivial = max(ts.values()) >= 2 and len(ts) >= 2
            for cls, d, cap, pooling in configs(tier, n):
                case = {'word': list(word), 'cls': cls, 'd': d, 'cap': cap, 'pooling': pooling, 'dup_pattern': 0, 'second_pass': True}
                viols, info = check_word(word, cls, d, cap, pooling, 0, second_pass=True)
                acc.case(case, transitions=2 * n, nontrivial=nontrivial,
                         outcome=f"{cls}:d{d}:cap{cap}:mols={info.get('molecules')}/{n}")
                for sig, det in viols:
                    acc.violation(sig, case, det)
                if cls == 'chic0' and cap is None and n >= 2:
                    # history: the reads were tagged before with assignment radius 2 (sites 0 and 1 were one molecule then and
                    # carry its outermost site in DS); radius 0 must still keep them apart
                    case2 = dict(case, earlier='chic2')
                    viols, info = check_word(word, cls, d, cap, pooling, 0, second_pass=True, earlier='chic2')
                    acc.case(case2, transitions=3 * n, nontrivial=nontrivial,
                             outcome=f"{cls}:after-chic2:d{d}:mols={info.get('molecules')}/{n}")
                    acc.count('cases-tagged-before-with-another-radius')
                    for sig, det in viols:
                        acc.violation(sig, case2, det)
            # every input duplicate-flag pattern in the default configuration of each class
            for cls in CLASSES:
                for pat in range(1, 1 << n):
                    case = {'word': list(word), 'cls': cls, 'd': 1, 'cap': None, 'pooling': 1, 'dup_pattern': pat, 'second_pass': True}
                    viols, info = check_word(word, cls, 1, None, 1, pat, second_pass=True)
                    acc.case(case, transitions=2 * n, nontrivial=nontrivial, outcome=f'{cls}:flagpattern:mols={info.get("molecules")}/{n}')
                    for sig, det in viols:
                        acc.violation(sig, case, det)


def replay(case):
    return check_word(tuple(case['word']), case['cls'], case['d'], case['cap'], case['pooling'], case['dup_pattern'],
                      case['second_pass'], bool(case.get('yield_invalid', False)), bool(case.get('stale', False)),
                      earlier=case.get('earlier'))[0]
