"""C18 - allele lookups agree with the VCF in every loading mode.

Explicit-state breadth-first search over HISTORIES of runs that share one cache directory.

  run      = (mode in eager / lazy / cache / cache+eager, select_samples, ignore_conversions, phased,
              first operation in has_location / getAllelesAt) + a contig access sequence over
              {c1, c2, c3_random (never cached), zz (not in the VCF)};  every run builds a FRESH
              AlleleResolver, so the only thing that crosses a run boundary is the cache directory.
  state    = exact content of <vcf>_allele_cache: absent / {file name -> decompressed text}.
  search   = from every state reachable in < depth runs ALL runs are executed on the real code, in a
             private copy of the VCF directory restored to exactly that state (access sequences up to
             the length bounds() states for that history level).  The reachable states are discovered
             with a small generating set of runs before the workers fork; while exploring, every
             successor is checked against the discovered set and a state the discovery missed is
             explored on the spot (counter undiscovered_successor_states), so the bound stays complete.
  at every access every (position 0..last+1, base ACGT) lookup and every has_location answer of the
  contig is compared with
    (i)  the eager, cache-free resolver of the SAME configuration (answers identical in every mode, for
         every access order, for every earlier history), and
    (ii) gen-independent expectations computed from the VCF text for the unambiguous core
         (oracles/c18_expected.py).
  One extra shard drives Molecule.allele (the DA tag value) through every mode for every configuration.

Audit extensions
  * run VARIANTS (a 7th run letter): verbose=True, a pickle round trip of the resolver before every access (how the taggers hand
    it to worker processes), region_start/region_end bounded resolvers, chrom=<contig>, and an unwritable cache directory
    (every open-for-writing below it fails with EACCES).  Bounded / chrom runs are obliged to answer like the unbounded eager
    resolver INSIDE the requested window (start <= position < end; the end position itself and everything outside is left
    open: there an answer may be missing, but never different from the VCF); what such a run leaves in the cache directory is
    part of the search state, so a later unbounded run that reads it is checked like any other.
  * a second initial cache state: '<name>.unfinished' left-overs of an interrupted writer for every cache file name.
  * VCF: haploid / triploid genotypes, lower-case bases, the * allele, duplicate positions, mixed SNV+indel multi-allelic
    records, four alleles; contig order of the file differs from the header.
  * contig-name shards: a second VCF (contigs KN1, KZ2, chrUn_3, x_random, ERCC-4 - never cached by name -, chr5 / chr5_al /
    chr5_alt, HLA-A*01), every ordered pair of configurations sharing one cache directory, all answers against the eager
    resolver.
  * DA shards: the resolver goes through MoleculeIterator(molecule_class_args=...) over a BAM with reads on every contig
    (one two-fragment molecule per contig), Molecule.write_tags() writes DA; the DA tags of all reads are compared between
    the eager resolver and every other mode (also pickled), for whole-file iteration and for contig orders that return to an
    evicted contig.
"""
import atexit
import errno
import gzip
import itertools
import os
import pickle
import shutil
import sys
import tempfile

from gen import c18_vcf as G
from oracles import c18_expected as O
from mc.bind import HarnessError

ID = 'C18'
DESIGN_REF = 'DESIGN.md section 3, C18; section 4 lead 13'
RULE = ('breadth-first search over histories of runs sharing one allele-cache directory; search state = exact '
        'content of the cache directory ({file -> decompressed text}, or no directory); from every state reached '
        'in < depth runs EVERY run (mode x select_samples x ignore_conversions x phased x first-operation x access '
        'sequence) is executed on a fresh real AlleleResolver and all lookups / has_location answers of every '
        'accessed contig are compared with the eager cache-free resolver of the same configuration and with the '
        'VCF-text oracle; states = distinct (cache state, run) cases, counter cache_states = distinct cache '
        'states expanded; a case is non-trivial when the run finds a cache file written by an EARLIER run for a '
        'contig it accesses, or returns to a contig that was evicted by loading another one; plus one shard of '
        'Molecule.allele conformance cases (6 resolver runs each); run variants (verbose / pickled before every access / '
        'region-bounded / chrom= / unwritable cache) follow every plain run whose access sequence is short enough '
        '(bounds: variant_access_length_by_history_level; below level 0 only in the two cache modes, the others never touch '
        'the cache); a second initial state holds <name>.unfinished left-overs; DA shards: MoleculeIterator + write_tags '
        'over a BAM, 9 resolver runs per case; contig-name shards: a second VCF whose contigs carry the never-cached name '
        'patterns, prefixes of one another and a *, every ordered pair of configurations in one cache directory, 4 runs per case')
ASSUMPTIONS = [
    'lookup positions are >= 0 (the loader plants a sentinel at position -1)',
    'the VCF is bgzipped, tabix-indexed and readable by pysam (uglyMode=True refuses such a file in every loading mode '
    'and labels REF/ALT instead of samples: outside the property)',
    'region_start/region_end/chrom restrict what a resolver must know: inside [region_start, region_end) of the prepared '
    'contig it must answer like the unbounded resolver; at region_end and outside an answer may be missing but never wrong',
    'an unwritable cache directory may be refused with an exception, but not answered differently',
    'the independent VCF-text oracle only speaks about sites that occur once, whose REF/ALT are upper-case single nucleotides and whose selected '
    'samples have no missing allele, with phased=True; all other sites and phased=False are covered by the '
    'all-modes-agree comparison only',
    'an empty set counts as "nothing"',
    'has_location: must agree between modes / calls, be False where the VCF has no record and True where a lookup '
    'has an answer; its value at recorded but uninformative sites is not prescribed',
    'runs of one history are sequential (no two processes write the cache concurrently)',
]

MODES = ('eager', 'lazy', 'cache', 'cache+eager')
MODE_KW = {
    'eager': {'lazyLoad': False, 'use_cache': False},
    'lazy': {'lazyLoad': True, 'use_cache': False},
    'cache': {'lazyLoad': True, 'use_cache': True},
    'cache+eager': {'lazyLoad': False, 'use_cache': True},
}
CACHE_MODES = ('cache', 'cache+eager')
SELECTS = (None, (G.S1, G.S2), (G.S1,), (G.S1, G.S3))
IGNORES = (None, (('C', 'T'), ('G', 'A')), (('T', 'C'), ('A', 'G')))
BASE_IGNORES = 2            # the third one is only reached through the run variant 'ignore=T>C,A>G'
PHASED = (True, False)
FIRSTS = ('g', 'h')          # g: getAllelesAt touches the contig first, h: has_location does
SYMBOLS = G.CACHED_CONTIGS + ('c3_random', G.ABSENT)
NODIR = ('<no cache directory>',)


# run variants: name -> spec.  kw = extra constructor arguments; window = (first position, first position behind) the run is
# obliged to know; chrom = the only contig it is obliged to know; pickle = round trip before every access; fault = cache
# directory unwritable.  Simplest first.
VARIANTS = {
    'plain': {},
    'verbose': {'kw': {'verbose': True}},
    'pickle': {'pickle': True},
    'region[2,9)': {'kw': {'region_start': 2, 'region_end': 9}, 'window': (2, 9)},
    # chrom= only matters to a resolver that loads at construction; elsewhere it would repeat the variant above
    'chrom=c2,region[2,9)': {'kw': {'chrom': 'c2', 'region_start': 2, 'region_end': 9}, 'window': (2, 9), 'chrom': 'c2',
                             'only_modes': ('eager', 'cache+eager')},
    'unwritable-cache': {'fault': True},
    # a second non-empty set of ignored conversions (replaces {C>T,G>A}); what such a run writes is not expanded further
    'ignore=T>C,A>G': {'ignore_index': 2, 'only_ii': 1, 'expand': False},
    'chrom=c2': {'kw': {'chrom': 'c2'}, 'chrom': 'c2', 'only_modes': ('eager', 'cache+eager')},
    'region[5,-)': {'kw': {'region_start': 5}, 'window': (5, None)},
    'region(-,9)': {'kw': {'region_end': 9}, 'window': (None, 9)},
}
QUICK_VARIANTS = ('verbose', 'pickle', 'region[2,9)', 'region(-,9)', 'chrom=c2,region[2,9)', 'unwritable-cache', 'ignore=T>C,A>G')
THOROUGH_VARIANTS = QUICK_VARIANTS + ('chrom=c2', 'region[5,-)')
WINDOWS = {n: v['window'] for n, v in VARIANTS.items() if 'window' in v}


DEEPEST_THOROUGH_VARIANTS = ('region[2,9)', 'ignore=T>C,A>G')     # the ones whose answers depend on what is already cached


def tier_variants(tier):
    """variants per history level"""
    if tier == 'quick':
        return (QUICK_VARIANTS, QUICK_VARIANTS)
    return (THOROUGH_VARIANTS, THOROUGH_VARIANTS, DEEPEST_THOROUGH_VARIANTS)


def var_of(run):
    return run[6] if len(run) > 6 else 'plain'


def cfg_of(run):
    """(select index, EFFECTIVE ignore index, phased) of a run"""
    return run[1], VARIANTS[var_of(run)].get('ignore_index', run[2]), run[3]


def bounds(tier):
    b = {'modes': list(MODES), 'select_samples': [None, ['S1', 'S2'], ['S1'], ['S1', 'S3']], 'sample_names': 'about 70 characters each; S2 and S3 share their first 57',
         'ignore_conversions': [None, [['C', 'T'], ['G', 'A']], 'as a run variant: [[T, C], [A, G]]'], 'phased': [True, False],
         'first_operation': ['getAllelesAt', 'has_location'], 'access_symbols': list(SYMBOLS),
         'vcf': {'samples': 3, 'contigs_with_records': 3, 'site_classes_per_contig': len(G.TEMPLATE),
                 'contig_order_in_file': list(G.FILE_ORDER), 'contig_order_in_header': list(G.CONTIGS)},
         'probe_positions': [0, G.MAX_POS0 + 1], 'probe_bases': list(G.PROBE_BASES)}
    # entry k = longest access sequence of a run that starts in a cache state reached by k earlier runs
    b['max_access_sequence_length_by_history_level'] = [3, 2] if tier == 'quick' else [3, 3, 2]
    b['history_depth'] = len(b['max_access_sequence_length_by_history_level'])
    b['run_variants_by_history_level'] = [['plain'] + list(v) for v in tier_variants(tier)]
    # entry k = longest access sequence of a VARIANT run at history level k (level >= 1: cache modes only)
    b['variant_access_length_by_history_level'] = [2, 1] if tier == 'quick' else [2, 1, 1]
    b['initial_cache_states'] = ['no cache directory', '<name>.unfinished left-over (truncated gzip) for every cache file name '
                                 'a first run can write']
    b['leftover_lineage'] = 'histories that start with the left-over files: first run from the full alphabet, later runs in the two cache modes with at most one access, plain'
    b['contig_names'] = {'contigs': list(G.NAME_CONTIGS), 'never_cached_by_name': list(G.NAME_UNCACHED),
                         'cases': 'all ordered pairs of the 16 configurations, 4 runs each in one cache directory'}
    b['da_tag'] = {'resolver_runs_per_case': list(DA_HISTORY), 'contig_orders': [list(o) if o else 'whole file' for o in DA_ORDERS],
                   'molecules_per_contig': 3, 'fragments_in_first_molecule': 2}
    return b


# ------------------------------------------------------------------------------------------------ alphabet

def access_sequences(max_len=3):
    out = []
    for n in range(0, max_len + 1):
        out.extend(itertools.product(SYMBOLS, repeat=n))
    return out


def chunk_runs(mode, phased, max_len, var_len=-1, variants=(), level=0):
    """All runs of one (mode, phased) chunk, simplest first; every plain run is followed by its variants when its access
    sequence is at most var_len long (below level 0 only for the modes that look at the cache directory)."""
    with_variants = variants and (level == 0 or mode in CACHE_MODES)
    for acc in access_sequences(max_len):
        for si in range(len(SELECTS)):
            for ii in range(BASE_IGNORES):
                for first in FIRSTS:
                    yield (mode, si, ii, phased, first, acc, 'plain')
                    if with_variants and len(acc) <= var_len:
                        for v in variants:
                            if VARIANTS[v].get('only_ii', ii) == ii and mode in VARIANTS[v].get('only_modes', MODES):
                                yield (mode, si, ii, phased, first, acc, v)


CHUNKS = [(m, p) for p in PHASED for m in MODES]


def all_runs(max_len, var_len=-1, variants=(), level=0):
    for m, p in CHUNKS:
        yield from chunk_runs(m, p, max_len, var_len, variants, level)


def runs_from(state, plan, chunk=None):
    """The runs executed from `state` (all chunks, or one).  Histories that start with the left-over files are a thin slice
    below level 0: the two cache modes, at most one access, plain runs (bounds: leftover_lineage)."""
    lens, var_lens, variants = plan
    thin = bool(state.initial) and state.level >= 1
    for ci, (m, p) in enumerate(CHUNKS):
        if chunk is not None and ci != chunk:
            continue
        if thin:
            if m in CACHE_MODES:
                yield from chunk_runs(m, p, min(1, lens[state.level]))
        else:
            yield from chunk_runs(m, p, lens[state.level], var_lens[state.level], variants[state.level], state.level)


def generating_runs():
    """Runs used to DISCOVER the reachable cache states before the workers start (completeness of the
    discovery is verified while exploring: an undiscovered successor is explored on the spot)."""
    for acc in ((), (G.ABSENT,), ('c1',), ('c2',), ('c1', 'c2')):
        for si in range(len(SELECTS)):
            for ii in range(BASE_IGNORES):
                for p in PHASED:
                    for m in CACHE_MODES:
                        yield (m, si, ii, p, 'g', acc, 'plain')
    # what a region-bounded run leaves behind (nothing new when bounded runs do not write partial cache files)
    for acc in (('c1',), ('c2',), ('c1', 'c2')):
        for si in range(len(SELECTS)):
            for ii in range(BASE_IGNORES):
                for p in PHASED:
                    yield ('cache', si, ii, p, 'g', acc, 'region[2,9)')


def run_to_json(run):
    m, si, ii, p, first, acc = run[:6]
    j = {'mode': m, 'select_samples': list(SELECTS[si]) if SELECTS[si] else None,
         'ignore_conversions': [list(x) for x in IGNORES[ii]] if IGNORES[ii] else None,
         'phased': p, 'first': 'has_location' if first == 'h' else 'getAllelesAt', 'access': list(acc)}
    if var_of(run) != 'plain':
        j['variant'] = var_of(run)
    return j


def run_from_json(j):
    sel = tuple(j['select_samples']) if j['select_samples'] else None
    ign = tuple(tuple(x) for x in j['ignore_conversions']) if j['ignore_conversions'] else None
    return (j['mode'], SELECTS.index(sel), IGNORES.index(ign), bool(j['phased']),
            'h' if j['first'] == 'has_location' else 'g', tuple(j['access']), j.get('variant') or 'plain')


# ------------------------------------------------------------------------------------------------ files

_ROOT = None
_OWNER = None
_MASTER = None
_WORK = {}          # pid -> (directory, vcf path)
_ON_DISK = {}       # pid -> state key currently materialised in the work dir


def _cleanup():
    if _ROOT and _OWNER == os.getpid():
        shutil.rmtree(_ROOT, ignore_errors=True)


class _Null:
    def write(self, *_a):
        return 0

    def flush(self):
        pass


class _quiet:
    """AlleleResolver reports failed loads with print(); keep the check's output clean."""

    def __enter__(self):
        self._o = sys.stdout
        sys.stdout = _Null()

    def __exit__(self, *a):
        sys.stdout = self._o


def _workdir():
    pid = os.getpid()
    if pid not in _WORK:
        d = tempfile.mkdtemp(prefix=f'w{pid}_', dir=_ROOT)
        _WORK.clear()
        _WORK[pid] = (d, G.clone(_MASTER, d))
        _ON_DISK.clear()
        _ON_DISK[pid] = NODIR
    return _WORK[pid]


def _cache_dir(vcf_path):
    return vcf_path + '_allele_cache'


def cached_for(contig, state):
    """Did an earlier run leave a cache file for this contig (whatever its configuration)?  Only the
    documented prefix <contig> of the file name is relied upon."""
    return any(n == contig or n.startswith(contig + '.') or n.startswith(contig + '_') for n in state.text)


class State:
    __slots__ = ('key', 'raw', 'text', 'history', 'level', 'initial')

    def __init__(self, key, raw, text, history, level, initial=None):
        self.key, self.raw, self.text, self.history, self.level = key, raw, text, history, level
        self.initial = initial      # None, or {file name: bytes} put into the cache directory before the first run


EMPTY = State(NODIR, {}, {}, (), 0)


def _text_of(raw_bytes):
    try:
        return gzip.decompress(raw_bytes).decode('latin-1')
    except Exception:
        return 'RAW:' + raw_bytes.decode('latin-1')


def initial_state(files):
    """A cache directory that exists before the first run (not produced by the code under test)."""
    text = {n: _text_of(r) for n, r in files.items()}
    return State(tuple(sorted(text.items())), dict(files), text, (), 0, dict(files))


def case_of(state, run):
    case = {'history': [run_to_json(r) for r in state.history + (run,)]}
    if state.initial:
        case['initial_cache'] = {n: r.decode('latin-1') for n, r in sorted(state.initial.items())}
    return case


def _restore(vcf_path, state):
    pid = os.getpid()
    if _ON_DISK.get(pid) == state.key:
        return
    cd = _cache_dir(vcf_path)
    if os.path.lexists(cd):
        shutil.rmtree(cd)
    if state.key != NODIR:
        os.mkdir(cd)
        for name, raw in state.raw.items():
            with open(os.path.join(cd, name), 'wb') as f:
                f.write(raw)
    _ON_DISK[pid] = state.key


def _snapshot(vcf_path, before):
    """-> (key, raw, text) of the cache directory now; `before` is the state that was restored."""
    cd = _cache_dir(vcf_path)
    if not os.path.isdir(cd):
        return NODIR, {}, {}
    raw, text = {}, {}
    for name in sorted(os.listdir(cd)):
        p = os.path.join(cd, name)
        if not os.path.isfile(p):
            raise HarnessError(f'unexpected non-file {p} in the cache directory')
        with open(p, 'rb') as f:
            r = f.read()
        raw[name] = r
        if before.raw.get(name) == r:
            text[name] = before.text[name]
        else:
            text[name] = _text_of(r)
    key = tuple(sorted(text.items()))
    return key, raw, text


# ------------------------------------------------------------------------------------------------ real code

def _resolver(vcf_path, run):
    from singlecellmultiomics.alleleTools import AlleleResolver
    mode = run[0]
    si, ii, phased = cfg_of(run)
    kw = dict(MODE_KW[mode])
    kw.update(VARIANTS[var_of(run)].get('kw', {}))
    return AlleleResolver(vcf_path,
                          select_samples=list(SELECTS[si]) if SELECTS[si] else None,
                          ignore_conversions=set(IGNORES[ii]) if IGNORES[ii] else None,
                          phased=phased, **kw)


class _NoWriteGzip:
    """stands in for the gzip module inside alleleTools: opening anything below `root` for writing fails like it does in a
    read-only directory (the checks run as root, where chmod does not make a directory read-only)"""

    def __init__(self, real, root):
        self._real, self._root = real, os.path.abspath(root)

    def open(self, filename, mode='rb', *a, **k):
        if any(c in mode for c in 'wax+') and os.path.abspath(os.fsdecode(filename)).startswith(self._root):
            raise PermissionError(errno.EACCES, 'Permission denied (injected: read-only cache directory)', str(filename))
        return self._real.open(filename, mode, *a, **k)

    def __getattr__(self, name):
        return getattr(self._real, name)


class _unwritable_cache:
    def __init__(self, vcf_path, active):
        self.root, self.active = _cache_dir(vcf_path), active

    def __enter__(self):
        self.mod = None
        if self.active:
            import singlecellmultiomics.alleleTools.alleleTools as AT
            if hasattr(AT, 'gzip'):
                self.mod, self.real = AT, AT.gzip
                AT.gzip = _NoWriteGzip(AT.gzip, self.root)

    def __exit__(self, *a):
        if self.mod is not None:
            self.mod.gzip = self.real


_ALT_READS = {}


def _alt_read(contig):
    """a read over the whole probed stretch of `contig` that spells the first ALT allele at every single-nucleotide record
    (so that it hits several informative sites that belong to different samples)"""
    if contig not in G.CONTIGS:
        return None
    if contig not in _ALT_READS:
        import pysam
        hdr = pysam.AlignmentHeader.from_references(list(G.CONTIGS), [G.CONTIG_LENGTH] * len(G.CONTIGS))
        n = G.MAX_POS0 + 2
        seq = ['A'] * n
        for c, pos1, ref, alt, gts, cls in G.records():
            a = alt.split(',')[0]
            if c == contig and len(ref) == 1 and len(a) == 1 and a in 'ACGT' and pos1 - 1 < n:
                seq[pos1 - 1] = a
        r = pysam.AlignedSegment(hdr)
        r.query_name = 'altread'
        r.query_sequence = ''.join(seq)
        r.flag = 0
        r.reference_id = hdr.get_tid(contig)
        r.reference_start = 0
        r.cigarstring = f'{n}M'
        r.mapping_quality = 60
        _ALT_READS[contig] = r
    return _ALT_READS[contig]


def _observe(ar, contig, first, with_reads=False):
    h0 = None
    if first == 'h':
        h0 = tuple(p for p in G.PROBE_POSITIONS if ar.has_location(contig, p))
    if with_reads:
        # the read-level entry point the tagger uses; asking it must not change what the lookups answer afterwards
        rd = _alt_read(contig)
        if rd is not None:
            ar.getAllele([rd])
    lk = []
    for p in G.PROBE_POSITIONS:
        for b in G.PROBE_BASES:
            r = ar.getAllelesAt(contig, p, b)
            if r is not None and len(r) > 0:
                lk.append((p, b, tuple(sorted(r))))
    h1 = tuple(p for p in G.PROBE_POSITIONS if ar.has_location(contig, p))
    return h0, tuple(lk), h1


def _execute(vcf_path, run):
    """One run on the real code. -> ([(h0, lookups, h1) per access], exception or None)"""
    obs = []
    spec = VARIANTS[var_of(run)]
    try:
        with _unwritable_cache(vcf_path, spec.get('fault')):
            ar = _resolver(vcf_path, run)
            for contig in run[5]:
                if spec.get('pickle'):
                    ar = pickle.loads(pickle.dumps(ar))      # what multiprocessing does with the resolver of a tagging task
                obs.append(_observe(ar, contig, run[4], with_reads=(run[4] == 'g')))
    except Exception as e:       # the code under test failed: a violation, reported by the caller
        return obs, e
    return obs, None


# ------------------------------------------------------------------------------------------------ oracles

REF = {}        # (si, ii, phased) -> {contig: (lookups, has_location positions)}   eager, cache-free, real code
EXP = {}        # (si, ii, phased) -> {contig: (lookups on known positions, has positions, unknown positions)}
EXP_RAW = {}    # (si, ii, phased) -> oracle dict
_VCF_TEXT = None


def setup():
    global _ROOT, _OWNER, _MASTER, _VCF_TEXT
    if _ROOT is not None:
        return
    base = '/dev/shm' if os.path.isdir('/dev/shm') else None
    _ROOT = tempfile.mkdtemp(prefix='c18_', dir=base)
    _OWNER = os.getpid()
    atexit.register(_cleanup)
    _MASTER = os.path.join(_ROOT, 'master')
    os.mkdir(_MASTER)
    G.build(_MASTER)
    G.build_names(_MASTER)
    with open(os.path.join(_MASTER, 'alleles.vcf')) as f:
        _VCF_TEXT = f.read()
    for si in range(len(SELECTS)):
        for ii in range(len(IGNORES)):
            for phased in PHASED:
                key = (si, ii, phased)
                # (i) reference: eager + cache-free, in a directory nobody else uses
                d = tempfile.mkdtemp(prefix='ref_', dir=_ROOT)
                vcf = G.clone(_MASTER, d)
                with _quiet():
                    ar = _resolver(vcf, ('eager', si, ii, phased))
                    REF[key] = {}
                    for c in SYMBOLS:
                        _h0, lk, h1 = _observe(ar, c, 'g')
                        REF[key][c] = (lk, h1)
                shutil.rmtree(d)
                # (ii) VCF-text oracle
                e = O.expected(_VCF_TEXT, select=SELECTS[si], ignore=set(IGNORES[ii]) if IGNORES[ii] else None,
                               phased=phased)
                EXP_RAW[key] = e
                EXP[key] = {}
                for c in SYMBOLS:
                    site = e.get(c, {})
                    unknown = frozenset(p for p, v in site.items() if v == O.UNKNOWN)
                    lk = tuple((p, b, tuple(sorted(site[p][b])))
                               for p in G.PROBE_POSITIONS if p in site and p not in unknown
                               for b in G.PROBE_BASES if b in site[p])
                    has = tuple(p for p in G.PROBE_POSITIONS if p in site and p not in unknown and site[p])
                    EXP[key][c] = (lk, has, unknown, frozenset(site))
    if not any(REF[k][c][0] for k in REF for c in SYMBOLS):
        raise HarnessError('the eager reference resolver answers nothing at all: VCF generation is broken')
    _names_reference()
    _other_vcf_history()


def _other_vcf_history():
    """History shared by every run of the process (setup() runs before the shard workers are forked, and replay() calls it too):
    resolvers on ANOTHER VCF were asked, in the lazy and in the cache mode, about the contigs of the VCF under test - which that
    other file does not have - and the other way round.  Nothing a resolver learns about a contig name may outlive the object
    or apply to another file."""
    from singlecellmultiomics.alleleTools import AlleleResolver
    d = tempfile.mkdtemp(prefix='othervcf_', dir=_ROOT)
    try:
        main = G.clone(_MASTER, os.path.join(d, 'main'))
        names = G.clone_names(_MASTER, os.path.join(d, 'names'))
        with _quiet():
            for vcf, foreign in ((names, tuple(SYMBOLS)), (main, tuple(G.NAME_CONTIGS))):
                for kw in ({'lazyLoad': True}, {'lazyLoad': True, 'use_cache': True}):
                    try:
                        ar = AlleleResolver(vcf, **kw)
                        for contig in foreign:
                            for pos in G.PROBE_POSITIONS[:2]:
                                ar.has_location(contig, pos)
                                ar.getAllelesAt(contig, pos, 'A')
                    except Exception:
                        pass      # what a resolver answers about a contig its file lacks is judged by the runs, not here
    finally:
        shutil.rmtree(d, ignore_errors=True)


def _kind(contig):
    if contig == G.ABSENT:
        return 'absent-contig'
    return 'cached-contig' if contig in G.CACHED_CONTIGS else 'uncached-contig'


def _restrict(lk, window):
    lo, hi = window
    return tuple(x for x in lk if (lo is None or x[0] >= lo) and (hi is None or x[0] < hi))


def _lookup_signature(run, contig, lk, pre, never_answered, earlier=()):
    mode = run[0]
    si, ii, phased = cfg_of(run)
    full = REF[(si, ii, phased)][contig][0]
    if mode in CACHE_MODES and cached_for(contig, pre):
        # an earlier region-bounded cache run of the same configuration touched the contig, and the answers are exactly
        # what the VCF says inside its window (possibly nothing at all)
        for r in earlier:
            w = VARIANTS[var_of(r)].get('window')
            if w and r[0] in CACHE_MODES and cfg_of(r) == (si, ii, phased) and contig in r[5] and _restrict(full, w) == lk:
                return 'cache:reused-across-region-bounds'
    if mode == 'cache+eager' and never_answered:
        return 'flags:use_cache-without-lazyLoad-returns-nothing'
    if mode in CACHE_MODES and cached_for(contig, pre):
        # the answers came out of a cache file of an earlier run: whose answers are they?
        if lk and any(_restrict(full, w) == lk for w in WINDOWS.values()):
            return 'cache:reused-across-region-bounds'
        others = [x for x in range(len(IGNORES)) if x != ii]
        for ii2, ph2, label in ([(x, phased, 'ignore_conversions') for x in others] + [(ii, not phased, 'phased')] +
                                [(x, not phased, 'ignore_conversions+phased') for x in others]):
            if REF[(si, ii2, ph2)][contig][0] == lk:
                return f'cache:reused-across-{label}'
        for si2 in range(len(SELECTS)):
            if si2 != si and any(REF[(si2, i2, p2)][contig][0] == lk for i2 in range(len(IGNORES)) for p2 in PHASED):
                return 'cache:reused-across-select_samples'
        for c2 in SYMBOLS:
            if lk and c2 != contig and any(REF[k][c2][0] == lk for k in REF):     # (no answers at all is nobody's answer)
                return 'cache:reused-across-contigs'
        return f'{mode}:cache-read-differs-from-eager'
    return f'{mode}:lookup-differs-from-eager:{_kind(contig)}'


def _oracle_violations(key, contig, lk, h1):
    """obs vs VCF-text expectations on the unambiguous core; only called when obs equals the eager reference,
    so a mismatch is a defect of the site rules themselves, whatever the mode."""
    exp_lk, exp_has, unknown, recorded = EXP[key][contig]
    out = []
    core = tuple(x for x in lk if x[0] not in unknown) if unknown else lk
    if core != exp_lk:
        site = EXP_RAW[key].get(contig, {})
        noign = O.expected(_VCF_TEXT, select=SELECTS[key[0]], ignore=None, phased=key[2]).get(contig, {})
        got = {}
        for p, b, s in core:
            got.setdefault(p, {})[b] = s
        want = {}
        for p, b, s in exp_lk:
            want.setdefault(p, {})[b] = s
        for p in G.PROBE_POSITIONS:
            if got.get(p) == want.get(p):
                continue
            if p not in site:
                cls = 'answer-at-absent-site'
            elif not want.get(p):
                cls = 'answer-at-ignored-conversion-site' if noign.get(p) else 'answer-at-uninformative-site'
            elif not got.get(p):
                cls = 'no-answer-at-informative-site'
            else:
                cls = 'wrong-samples-at-informative-site'
            out.append((f'vcf-oracle:getAllelesAt:{cls}',
                        {'contig': contig, 'position': p, 'got': got.get(p), 'expected': want.get(p, {})}))
    # has_location: only what the statement fixes - no location where the VCF has no record, and a location
    # wherever a lookup has an answer (sites that exist but are uninformative are left open)
    if core == exp_lk:
        hs = set(h1)
        ghost = [p for p in h1 if p not in recorded]
        lost = [p for p in exp_has if p not in hs]
        if ghost:
            out.append(('vcf-oracle:has_location:true-where-vcf-has-no-record', {'contig': contig, 'positions': ghost}))
        if lost:
            out.append(('vcf-oracle:has_location:false-at-informative-site', {'contig': contig, 'positions': lost}))
    return out


def _obliged(run, contig):
    """-> None when the run has to know the whole contig, else a predicate over positions: where it has to."""
    spec = VARIANTS[var_of(run)]
    if 'window' not in spec and 'chrom' not in spec:
        return None
    lo, hi = spec.get('window', (None, None))
    mine = spec.get('chrom') in (None, contig)
    return lambda p: mine and (lo is None or p >= lo) and (hi is None or p < hi)


def _check_bounded(run, pre, i, contig, inside, h0, lk, h1, ref_lk, ref_h, earlier=()):
    """A region-bounded / chrom= run: like the unbounded eager resolver where it is obliged to know the VCF; elsewhere an
    answer may be missing, but what is answered is what the VCF says."""
    mode = run[0]
    out = []
    got_in = tuple(x for x in lk if inside(x[0]))
    ref_in = tuple(x for x in ref_lk if inside(x[0]))
    if got_in != ref_in:
        how = 'cache-read' if (mode in CACHE_MODES and cached_for(contig, pre)) else 'lookup'
        poisoned = how == 'cache-read' and any(
            VARIANTS[var_of(r)].get('window') and r[0] in CACHE_MODES and cfg_of(r) == cfg_of(run) and contig in r[5] and
            tuple(x for x in _restrict(ref_lk, VARIANTS[var_of(r)]['window']) if inside(x[0])) == got_in for r in earlier)
        out.append(('cache:reused-across-region-bounds' if poisoned else
                    f'{mode}:{how}-differs-from-eager-inside-the-region:{_kind(contig)}',
                    {'access_index': i, 'contig': contig, 'answers_inside': len(got_in), 'eager_answers_inside': len(ref_in),
                     'first_differences(pos,base,samples)': sorted(set(got_in) ^ set(ref_in))[:4]}))
    by_pos, ref_by_pos = {}, {}
    for x in lk:
        if not inside(x[0]):
            by_pos.setdefault(x[0], []).append(x)
    for x in ref_lk:
        ref_by_pos.setdefault(x[0], []).append(x)
    wrong = [p for p, v in sorted(by_pos.items()) if v != ref_by_pos.get(p)]
    if wrong:
        out.append((f'{mode}:answer-outside-the-region-differs-from-the-vcf:{_kind(contig)}',
                    {'access_index': i, 'contig': contig, 'positions': wrong[:6]}))
    rh = set(ref_h)
    for h in (h0, h1):
        if h is None:
            continue
        if tuple(p for p in h if inside(p)) != tuple(p for p in ref_h if inside(p)):
            out.append((f'has_location:{mode}:differs-from-eager-inside-the-region:{_kind(contig)}',
                        {'access_index': i, 'contig': contig, 'got': list(h), 'eager': list(ref_h)}))
        elif any(p not in rh for p in h):
            out.append((f'has_location:{mode}:true-outside-the-region-where-eager-says-false:{_kind(contig)}',
                        {'access_index': i, 'contig': contig, 'positions': [p for p in h if p not in rh][:6]}))
    return out


def check_run(run, pre, obs, exc, earlier=None):
    """-> [(signature, detail)] for one executed run that started in cache state `pre` (reached by the runs `earlier`)."""
    if earlier is None:
        earlier = pre.history or ()
    mode, first, access = run[0], run[4], run[5]
    var = var_of(run)
    key = cfg_of(run)
    out = []
    never_answered = not any(lk or h1 or h0 for h0, lk, h1 in obs)
    for i, (h0, lk, h1) in enumerate(obs):
        contig = access[i]
        ref_lk, ref_h = REF[key][contig]
        inside = _obliged(run, contig)
        if inside is not None:
            out.extend(_check_bounded(run, pre, i, contig, inside, h0, lk, h1, ref_lk, ref_h, earlier))
            continue
        lookup_ok = (lk == ref_lk)
        if not lookup_ok:
            diff = sorted(set(lk) ^ set(ref_lk))[:4]
            out.append((_lookup_signature(run, contig, lk, pre, never_answered, earlier),
                        {'access_index': i, 'contig': contig, 'answers': len(lk), 'eager_answers': len(ref_lk),
                         'first_differences(pos,base,samples)': diff}))
        has_ok = (h1 == ref_h) and (h0 is None or h0 == ref_h)
        if not has_ok:
            det = {'access_index': i, 'contig': contig, 'first_pass': None if h0 is None else list(h0),
                   'after_lookups': list(h1), 'eager': list(ref_h)}
            if contig == G.ABSENT:
                out.append(('has_location:absent-contig-inconsistent', det))
            elif lookup_ok:
                why = 'changes-between-calls' if (h0 is not None and h0 != h1) else 'differs-from-eager'
                out.append((f'has_location:{mode}:{why}:{_kind(contig)}', det))
        if lookup_ok and has_ok:
            out.extend(_oracle_violations(key, contig, lk, h1))
    if exc is not None and not VARIANTS[var].get('fault'):
        # (an unwritable cache directory may be refused; answering differently is what is checked above)
        out.append((f'{mode}:exception:{type(exc).__name__}', {'access_index': len(obs), 'error': repr(exc)}))
    if var != 'plain':
        out = [(f'{var}:{s}', d) for s, d in out]
    seen = set()
    return [(s, d) for s, d in out if not (s in seen or seen.add(s))]


# ------------------------------------------------------------------------------------------------ search

_STATES = []        # discovered states, index = id
_INDEX = {}         # key -> id
_DEPTH = None


def _step(vcf_path, pre, run):
    """Restore `pre`, execute `run`, -> (obs, exc, successor State (history not filled in))."""
    _restore(vcf_path, pre)
    with _quiet():
        obs, exc = _execute(vcf_path, run)
    key, raw, text = _snapshot(vcf_path, pre)
    _ON_DISK[os.getpid()] = key
    if key == pre.key:
        return obs, exc, pre
    return obs, exc, State(key, raw, text, None, pre.level + 1, pre.initial)


def _leftover_state(first_level_states):
    """Second initial state: an interrupted writer left '<name>.unfinished' (a truncated gzip stream) behind for every cache
    file name a first run can produce.  (The temporary name is the documented write protocol: write, then rename.)"""
    files = {}
    for s in first_level_states:
        for name, raw in s.raw.items():
            if not name.endswith('.unfinished'):
                files[name + '.unfinished'] = raw[:max(1, len(raw) // 2)]
    return initial_state(files)


def _register(state):
    _INDEX[state.key] = len(_STATES)
    _STATES.append(state)


def _successors(vcf, s, level):
    new = []
    for run in generating_runs():
        _obs, _exc, succ = _step(vcf, s, run)
        if succ.key not in _INDEX:
            succ.history = s.history + (run,)
            succ.level = level
            _register(succ)
            new.append(succ)
    return new


def _discover(depth):
    """States reachable in < depth runs (those are the ones that get expanded), from both initial states."""
    global _DEPTH
    if _DEPTH == depth:
        return
    if depth < 2:
        raise HarnessError('history depth must be at least 2')
    del _STATES[:]
    _INDEX.clear()
    _register(EMPTY)
    _, vcf = _workdir()
    frontier = [EMPTY]
    for level in range(1, depth):
        new = []
        for s in frontier:
            new.extend(_successors(vcf, s, level))
        if level == 1:
            left = _leftover_state(new)
            if left.raw and left.key not in _INDEX:     # (no first run wrote anything: no such state)
                _register(left)
                new.extend(_successors(vcf, left, 1))
        frontier = new
    _restore(vcf, EMPTY)
    _DEPTH = depth


def shards(tier):
    b = bounds(tier)
    lens = b['max_access_sequence_length_by_history_level']
    _discover(len(lens))
    out = []
    for sid in range(len(_STATES)):
        for ci in range(len(CHUNKS)):
            if _STATES[sid].initial and _STATES[sid].level >= 1 and CHUNKS[ci][0] not in CACHE_MODES:
                continue
            out.append((sid, ci, tuple(lens), tuple(b['variant_access_length_by_history_level']), tuple(tier_variants(tier))))
    out.append(('molecule',))
    for k in range(DA_SHARDS):
        out.append(('da', k))
    for k in range(NAMES_SHARDS):
        out.append(('names', k))
    return out


def _returns_to_evicted(access):
    for k in range(2, len(access)):
        for i in range(k - 1):
            if access[i] == access[k] and any(access[j] != access[k] for j in range(i + 1, k)):
                return True
    return False


def _explore(state, runs, plan, acc, local):
    lens, var_lens, variants = plan
    _, vcf = _workdir()
    depth = len(lens)
    twin = (None, frozenset())
    for run in runs:
        obs, exc, succ = _step(vcf, state, run)
        viols = check_run(run, state, obs, exc)
        failed = bool(viols)
        if var_of(run) == 'plain':
            twin = (run[:6], frozenset(s for s, _ in viols))
        elif twin[0] == run[:6]:
            # what the plain run of the same history already reported is not reported again under the variant's name
            viols = [(s, d) for s, d in viols if s.split(var_of(run) + ':', 1)[1] not in twin[1]]
        mode, si = run[0], run[1]
        var = var_of(run)
        found = mode in CACHE_MODES and any(cached_for(c, state) for c in run[5])
        wrote = succ.key != state.key
        evict = mode != 'eager' and _returns_to_evicted(run[5])
        effect = '+'.join(x for x in ('finds-earlier-cache' if found else '', 'writes' if wrote else '') if x) or 'cache-untouched'
        case = case_of(state, run)
        acc.case(case, transitions=1 + len(run[5]) * (len(G.PROBE_POSITIONS) * (len(G.PROBE_BASES) + 1 + (run[4] == 'h'))),
                 nontrivial=bool(found or evict),
                 outcome=f"{mode}|{effect}|{'return-to-evicted' if evict else 'no-return'}|{'VIOLATION' if failed else 'ok'}")
        if var != 'plain':
            refused = exc is not None and VARIANTS[var].get('fault')
            acc.count(f"variant_runs[{var}]{'|refused' if refused else ''}", 1)
        if state.initial:
            acc.count('runs_from_a_history_that_starts_with_unfinished_leftovers', 1)
        for sig, det in viols:
            acc.violation(sig, case, det)
        if wrote and succ.level < depth and VARIANTS[var].get('expand', True) and succ.key not in _INDEX and succ.key not in local:
            # the discovery pass missed this state: explore it here, completely, so the bound stays exhaustive
            local.add(succ.key)
            succ.history = state.history + (run,)
            acc.count('undiscovered_successor_states', 1)
            acc.count('cache_states', 1)
            _explore(succ, runs_from(succ, plan), plan, acc, local)


def run_shard(shard, tier, acc):
    if shard[0] == 'molecule':
        for case in molecule_cases():
            viols, label = check_molecule(case)
            acc.case(case, transitions=len(MOLECULE_HISTORY), execs=len(MOLECULE_HISTORY),
                     nontrivial=label not in ('None', 'error'), outcome=f'molecule|allele={label}')
            for sig, det in viols:
                acc.violation(sig, case, det)
        return
    if shard[0] == 'da':
        for n, case in enumerate(da_cases()):
            if n % DA_SHARDS != shard[1]:
                continue
            viols, label, tagged = check_da(case)
            acc.case(case, transitions=tagged, execs=len(DA_HISTORY), nontrivial=label == 'tags-differ-between-molecules',
                     outcome=f'da|{label}')
            for sig, det in viols:
                acc.violation(sig, case, det)
        return
    if shard[0] == 'names':
        for n, case in enumerate(names_cases()):
            if n % NAMES_SHARDS != shard[1]:
                continue
            viols, nfiles, lookups = check_names(case)
            same = case['names']['first'] == case['names']['second']
            acc.case(case, transitions=lookups, execs=4, nontrivial=True,
                     outcome=f"names|{'same' if same else 'different'}-configurations|{nfiles}-cache-files|{'VIOLATION' if viols else 'ok'}")
            for sig, det in viols:
                acc.violation(sig, case, det)
        return
    sid, ci, lens, var_lens, variants = shard
    state = _STATES[sid]
    thin = bool(state.initial) and state.level >= 1
    if ci == (MODES.index(CACHE_MODES[0]) if thin else 0):
        acc.count('cache_states', 1)
        acc.count(f"cache_states_level_{state.level}{'_leftover_lineage' if state.initial else ''}", 1)
    plan = (lens, var_lens, variants)
    _explore(state, runs_from(state, plan, ci), plan, acc, set())


# ------------------------------------------------------------------------------------------------ molecules

# Conformance of the consumer (Molecule.allele, the value written to the DA tag): one molecule whose read
# spells the first haplotype of one sample over a whole contig, resolver of one configuration, the same
# configuration in every loading mode in ONE directory (so the second cache run reads what the first wrote).
MOLECULE_HISTORY = ('eager', 'lazy', 'cache', 'cache', 'cache+eager', 'cache+eager')


def molecule_cases():
    for contig in SYMBOLS:
        for hap in G.SAMPLES:
            for si in range(len(SELECTS)):
                for ii in range(BASE_IGNORES):
                    for phased in PHASED:
                        yield {'molecule': {'contig': contig, 'haplotype_of': hap,
                                            'select_samples': list(SELECTS[si]) if SELECTS[si] else None,
                                            'ignore_conversions': [list(x) for x in IGNORES[ii]] if IGNORES[ii] else None,
                                            'phased': phased}}


def _haplotype_read(contig, hap):
    import pysam
    header = pysam.AlignmentHeader.from_dict({'HD': {'VN': '1.6'}, 'SQ': [{'SN': c, 'LN': G.CONTIG_LENGTH}
                                                                          for c in SYMBOLS]})
    seq = ['A'] * (G.MAX_POS0 + 2)
    src = contig if contig in G.CONTIGS else G.CONTIGS[0]
    col = G.SAMPLES.index(hap)
    for c, pos1, ref, alt, gts, _cls in G.records():
        if c != src:
            continue
        alleles = [ref] + alt.split(',')
        a = gts[col].replace('|', '/').split('/')[0]
        base = ref if a == '.' else alleles[int(a)]
        seq[pos1 - 1] = base[0] if base[0] in 'ACGT' else 'A'       # (* and lower-case alleles cannot be read bases)
    seq = ''.join(seq)
    r = pysam.AlignedSegment(header)
    r.query_name = 'm1'
    r.reference_id = header.get_tid(contig)
    r.reference_start = 0
    r.query_sequence = seq
    r.query_qualities = pysam.qualitystring_to_array('I' * len(seq))
    r.cigartuples = [(0, len(seq))]
    r.flag = 0
    r.mapping_quality = 60
    r.set_tag('SM', 'cell1')
    r.set_tag('RX', 'ACG')
    r.set_tag('MX', 'scCHIC')
    return r


def check_molecule(case, vcf=None):
    from singlecellmultiomics.molecule import Molecule
    from singlecellmultiomics.fragment import Fragment
    j = case['molecule']
    cfg = run_from_json({'mode': 'eager', 'select_samples': j['select_samples'],
                         'ignore_conversions': j['ignore_conversions'], 'phased': j['phased'],
                         'first': 'getAllelesAt', 'access': []})
    if vcf is None:
        _, vcf = _workdir()
        _restore(vcf, EMPTY)
    seen = []
    answers = []        # does the resolver answer any direct lookup on the contig after the molecule used it?
    out = []
    with _quiet():
        for k, mode in enumerate(MOLECULE_HISTORY):
            try:
                ar = _resolver(vcf, (mode,) + cfg[1:])
                m = Molecule(Fragment([_haplotype_read(j['contig'], j['haplotype_of'])]), allele_resolver=ar)
                a = m.allele
                lk = tuple(sorted((str(x), round(float(v), 6)) for x, v in m.allele_likelihoods.items()))
                seen.append((None if a is None else str(a), lk))
                answers.append(bool(_observe(ar, j['contig'], 'g')[1]))
            except Exception as e:
                seen.append(('error', repr(e)))
                answers.append(None)
                out.append((f'molecule.allele:{mode}:exception:{type(e).__name__}', {'run_index': k, 'error': repr(e)}))
    _ON_DISK[os.getpid()] = ('<dirty>',)
    ref = seen[0]
    for k, mode in enumerate(MOLECULE_HISTORY):
        if k and seen[k] != ref and seen[k][0] != 'error':
            if mode == 'cache+eager' and seen[k] == (None, ()) and answers[0] and answers[k] is False:
                sig = 'flags:use_cache-without-lazyLoad-returns-nothing'
            else:
                sig = f"molecule.allele:{mode}{':second-run' if MOLECULE_HISTORY[k - 1] == mode else ''}:differs-from-eager"
            out.append((sig, {'run_index': k, 'mode': mode, 'allele,likelihoods': seen[k], 'eager': ref}))
    dedup = set()
    return [(s, d) for s, d in out if not (s in dedup or dedup.add(s))], str(ref[0])


# ------------------------------------------------------------------------------------------------ DA tags

# The resolver reaches the molecules the way the taggers pass it: MoleculeIterator(molecule_class_args={'allele_resolver': ..}).
# One BAM with reads on every contig of the alphabet (per contig one molecule per sample haplotype; the first one has two
# fragments), Molecule.write_tags() writes DA.  The same configuration goes through every loading mode in ONE directory; the
# DA tags of all reads must equal those obtained with the eager cache-free resolver.
DA_HISTORY = ('eager', 'lazy', 'cache', 'cache', 'cache+eager', 'cache+eager', 'eager+pickle', 'lazy+pickle', 'cache+pickle')
DA_ORDERS = (None, ('c1', 'c2', 'c1'), ('c2', 'c3_random', G.ABSENT, 'c2'))
DA_SHARDS = 8
_DA_BAM = {}


def da_cases():
    for oi in range(len(DA_ORDERS)):
        for si in range(len(SELECTS)):
            for ii in range(BASE_IGNORES):
                for phased in PHASED:
                    yield {'da': {'contig_order': list(DA_ORDERS[oi]) if DA_ORDERS[oi] else None,
                                  'select_samples': list(SELECTS[si]) if SELECTS[si] else None,
                                  'ignore_conversions': [list(x) for x in IGNORES[ii]] if IGNORES[ii] else None,
                                  'phased': phased}}


def _da_bam():
    pid = os.getpid()
    if pid not in _DA_BAM:
        import pysam
        d, _ = _workdir()
        path = os.path.join(d, 'molecules.bam')
        reads = []
        for contig in SYMBOLS:
            for k, hap in enumerate(G.SAMPLES):
                for dup in range(2 if k == 0 else 1):
                    r = _haplotype_read(contig, hap)
                    r.query_name = f'{contig}.hap{k + 1}.{dup}'
                    r.set_tag('SM', f'cell{k + 1}')
                    reads.append(r)
        with pysam.AlignmentFile(path, 'wb', header=reads[0].header) as o:
            for r in reads:
                o.write(r)
        pysam.index(path)
        _DA_BAM.clear()
        _DA_BAM[pid] = path
    return _DA_BAM[pid]


def _tag_all(ar, order, bam):
    """-> ((read name, DA or None), ...) after MoleculeIterator + write_tags, contigs visited in `order` (None: the whole file)"""
    import pysam
    from singlecellmultiomics.molecule import Molecule, MoleculeIterator
    from singlecellmultiomics.fragment import Fragment
    out = []
    with pysam.AlignmentFile(bam) as al:
        for contig in (order or (None,)):
            kw = {} if contig is None else {'contig': contig}
            for m in MoleculeIterator(al, molecule_class=Molecule, fragment_class=Fragment,
                                      molecule_class_args={'allele_resolver': ar}, **kw):
                m.write_tags()
                for read in m.iter_reads():
                    out.append((read.query_name, read.get_tag('DA') if read.has_tag('DA') else None))
    return tuple(out)


def check_da(case, vcf=None):
    j = case['da']
    cfg = run_from_json({'mode': 'eager', 'select_samples': j['select_samples'], 'ignore_conversions': j['ignore_conversions'],
                         'phased': j['phased'], 'first': 'getAllelesAt', 'access': []})
    order = tuple(j['contig_order']) if j['contig_order'] else None
    if vcf is None:
        _, vcf = _workdir()
        _restore(vcf, EMPTY)
    bam = _da_bam()
    seen, out = [], []
    with _quiet():
        for k, step in enumerate(DA_HISTORY):
            mode = step.split('+pickle')[0]
            try:
                ar = _resolver(vcf, (mode,) + cfg[1:])
                if step.endswith('+pickle'):
                    ar = pickle.loads(pickle.dumps(ar))
                seen.append(_tag_all(ar, order, bam))
            except Exception as e:
                seen.append(('error', repr(e)))
                out.append((f'da-tag:{step}:exception:{type(e).__name__}', {'run_index': k, 'error': repr(e)}))
    _ON_DISK[os.getpid()] = ('<dirty>',)
    ref = seen[0]
    for k, step in enumerate(DA_HISTORY):
        if k and seen[k] != ref and seen[k][:1] != ('error',) and ref[:1] != ('error',):
            diff = [(a, b) for a, b in zip(seen[k], ref) if a != b][:4]
            second = ':second-run' if DA_HISTORY[k - 1] == step else ''
            out.append((f'da-tag:{step}{second}:differs-from-eager', {'run_index': k, 'step': step, 'first (got, eager)': diff,
                                                                       'reads_tagged': len(seen[k]), 'eager_reads_tagged': len(ref)}))
    tags = {t for _n, t in ref} if ref[:1] != ('error',) else set()
    label = 'error' if ref[:1] == ('error',) else ('tags-differ-between-molecules' if len(tags) > 1 else
                                                    ('one-tag' if tags - {None} else 'untagged'))
    dedup = set()
    return [(s, d) for s, d in out if not (s in dedup or dedup.add(s))], label, (0 if ref[:1] == ('error',) else len(ref))


# ------------------------------------------------------------------------------------------------ contig names

# A second VCF whose contigs are named like the patterns the resolver treats specially (never cached: KN*, KZ*, chrUn*,
# *_random, *ERCC*), names that are prefixes of one another, and a name with '*'.  Case = ordered pair of configurations
# sharing one cache directory: [cache, A, contigs forward] [cache, B, backward] [cache+eager, B, forward then backward]
# [lazy, B, forward then backward]; every lookup / has_location answer of every access is compared with the eager
# cache-free resolver of the same configuration on the same VCF.
NAMES_SHARDS = 4
NAME_REF = {}       # (si, ii, phased) -> {contig: (lookups, has_location positions)}
_NAMES_WORK = {}


def names_cases():
    cfgs = [(si, ii, ph) for ph in PHASED for si in range(len(SELECTS)) for ii in range(BASE_IGNORES)]
    for a in cfgs:
        for b in cfgs:
            yield {'names': {'first': _cfg_json(a), 'second': _cfg_json(b)}}


def _cfg_json(c):
    si, ii, ph = c
    return {'select_samples': list(SELECTS[si]) if SELECTS[si] else None,
            'ignore_conversions': [list(x) for x in IGNORES[ii]] if IGNORES[ii] else None, 'phased': ph}


def _cfg_from_json(j):
    r = run_from_json(dict(j, mode='eager', first='getAllelesAt', access=[]))
    return r[1], r[2], r[3]


def _observe_names(ar, contig):
    lk = []
    for p in G.NAME_PROBE_POSITIONS:
        for b in G.PROBE_BASES:
            r = ar.getAllelesAt(contig, p, b)
            if r is not None and len(r) > 0:
                lk.append((p, b, tuple(sorted(r))))
    return tuple(lk), tuple(p for p in G.NAME_PROBE_POSITIONS if ar.has_location(contig, p))


def _names_vcf():
    pid = os.getpid()
    if pid not in _NAMES_WORK:
        d, _ = _workdir()
        _NAMES_WORK.clear()
        _NAMES_WORK[pid] = G.clone_names(_MASTER, os.path.join(d, 'names'))
    return _NAMES_WORK[pid]


def _names_reference():
    if NAME_REF:
        return
    d = tempfile.mkdtemp(prefix='nref_', dir=_ROOT)
    vcf = G.clone_names(_MASTER, d)
    with _quiet():
        for si in range(len(SELECTS)):
            for ii in range(BASE_IGNORES):
                for ph in PHASED:
                    ar = _resolver(vcf, ('eager', si, ii, ph))
                    NAME_REF[(si, ii, ph)] = {c: _observe_names(ar, c) for c in G.NAME_CONTIGS}
    shutil.rmtree(d)
    if not all(NAME_REF[(0, 0, True)][c][0] for c in G.NAME_CONTIGS):
        raise HarnessError('the eager resolver has a contig without answers in the contig-names VCF')


def check_names(case, vcf=None):
    a, b = _cfg_from_json(case['names']['first']), _cfg_from_json(case['names']['second'])
    if vcf is None:
        vcf = _names_vcf()
    cd = _cache_dir(vcf)
    if os.path.lexists(cd):
        shutil.rmtree(cd)
    fwd = tuple(G.NAME_CONTIGS)
    plan = (('cache', a, fwd), ('cache', b, fwd[::-1]), ('cache+eager', b, fwd + fwd[::-1]), ('lazy', b, fwd + fwd[::-1]))
    out = []
    lookups = 0
    with _quiet():
        for k, (mode, cfg, order) in enumerate(plan):
            try:
                ar = _resolver(vcf, (mode,) + cfg)
                for contig in order:
                    lk, h = _observe_names(ar, contig)
                    lookups += 1
                    ref_lk, ref_h = NAME_REF[cfg][contig]
                    kind = 'never-cached-name' if contig in G.NAME_UNCACHED else 'cached-name'
                    if lk != ref_lk:
                        if any(c2 != contig and NAME_REF[cfg][c2][0] == lk for c2 in G.NAME_CONTIGS):
                            sig = f'contig-names:{mode}:answers-of-another-contig:{kind}'
                        elif any(k2 != cfg and NAME_REF[k2][contig][0] == lk for k2 in NAME_REF):
                            sig = f'contig-names:{mode}:answers-of-another-configuration:{kind}'
                        else:
                            sig = f'contig-names:{mode}:lookup-differs-from-eager:{kind}'
                        out.append((sig, {'run_index': k, 'contig': contig, 'answers': len(lk), 'eager_answers': len(ref_lk),
                                          'first_differences': sorted(set(lk) ^ set(ref_lk))[:4]}))
                    elif h != ref_h:
                        out.append((f'contig-names:has_location:{mode}:differs-from-eager:{kind}',
                                    {'run_index': k, 'contig': contig, 'got': list(h), 'eager': list(ref_h)}))
            except Exception as e:
                out.append((f'contig-names:{mode}:exception:{type(e).__name__}', {'run_index': k, 'error': repr(e)}))
    files = sorted(os.listdir(cd)) if os.path.isdir(cd) else []
    dedup = set()
    return [(s, d) for s, d in out if not (s in dedup or dedup.add(s))], len(files), lookups


# ------------------------------------------------------------------------------------------------ replay

def replay(case):
    """Run ONE history in a brand-new private copy of the VCF directory, run after run."""
    setup()
    d = tempfile.mkdtemp(prefix='replay_', dir=_ROOT)
    out = []
    try:
        vcf = G.clone(_MASTER, d)
        if 'molecule' in case:
            return check_molecule(case, vcf)[0]
        if 'da' in case:
            return check_da(case, vcf)[0]
        if 'names' in case:
            return check_names(case, G.clone_names(_MASTER, os.path.join(d, 'names')))[0]
        pre = EMPTY
        if case.get('initial_cache'):
            pre = initial_state({n: t.encode('latin-1') for n, t in case['initial_cache'].items()})
            os.mkdir(_cache_dir(vcf))
            for name, raw in pre.raw.items():
                with open(os.path.join(_cache_dir(vcf), name), 'wb') as f:
                    f.write(raw)
        earlier = []
        for j in case['history']:
            run = run_from_json(j)
            with _quiet():
                obs, exc = _execute(vcf, run)
            out.extend(check_run(run, pre, obs, exc, tuple(earlier)))
            earlier.append(run)
            key, raw, text = _snapshot(vcf, pre)
            pre = State(key, raw, text, None, 0)
    finally:
        shutil.rmtree(d, ignore_errors=True)
    seen = set()
    return [(s, dd) for s, dd in out if not (s in seen or seen.add(s))]
