"""C01 - demultiplexing conserves every read pair (demultiplexed XOR rejected).

Seam: the real loader loop DemultiplexingStrategyLoader.demultiplex(files, strategies=[s], targetFile=FastqHandle,
rejectHandle=FastqHandle|None, log_handle, library, maxReadPairs) reading real FASTQ files from a private
/dev/shm directory through the real FastqIterator and writing through the real gzip writers (joint and
single_cell=True), wired exactly as modularDemultiplexer/demux.py does.

Space: per registered strategy a read-pair class alphabet (gen/c01_reads.py); ALL words of length <= 2 over it
plus the one word holding every letter (gzip input), x configurations (paired/single end, rejects on/off,
joint/per-cell, barcode Hamming expansion 0/1, maxReadPairs None/1/2/3); a phred sweep (every quality
character = phred p); one long per-cell word that drives the handle limiter through prune + re-open.
Oracle: oracles/c01_accounting.py (the property sentence, by accounting of id tokens; no expected values).
"""
import contextlib
import io
import os
import shutil
import tempfile

from mc import bind
from gen import c01_reads as G
from oracles import c01_accounting as O

ID = 'C01'
DESIGN_REF = 'DESIGN.md section 3, C01'
RULE = ('per strategy: every word of length <= 2 over the read-pair class alphabet (+ the word of all letters, '
        '+ phred sweep words [Qp],[Qp,W],[W,Qp], + one long per-cell word) x configuration, each pushed through '
        'the real loader loop with real files; states = distinct (strategy, configuration, word); transitions = '
        'read pairs consumed; a case is non-trivial when the run wrote at least one pair to the demultiplexed '
        'output AND at least one to the rejects in the same run (both sinks live, so a lost, doubled or '
        'desynchronised record shows)')
ASSUMPTIONS = [
    'well-formed FASTQ input (4-line records, len(seq)==len(qual)), Sanger qualities phred 0..93',
    'library name short enough for the 255 character header limit (overflow belongs to C04)',
    'one selected strategy per run (as the design states); maxReadPairs >= 1 (demux.py never passes 0)',
    'sequencing index parser with Hamming expansion 1 and alias illumina_merged_ThruPlex48S_RP (demux.py defaults)',
    'the 10x whitelist is empty in this snapshot: CHROMC16U12 can only reject',
]

LIBRARY = 'L1'
INDEX_ALIAS = 'illumina_merged_ThruPlex48S_RP'
QUICK_PHREDS = [0, 40, 41, 51, 52, 53, 93]
LONG_PAIRS = 7000          # 6/7 accepted x 2 mates = 12000 handle-limiter writes > pruneEvery (10000): prune, then re-open (append)
LONG_STRATEGIES_QUICK = ['CS2C8U6']
LONG_STRATEGIES_THOROUGH = ['CS2C8U6', 'NLAIII384C8U3', 'scCHIC384C8U3', 'SCARC8R2', 'DamID2_3u4b3u6b', 'TCHIC']

_STATE = {}
_DEVNULL = None


# ------------------------------------------------------------------------------------------------ setup
def setup():
    """Build parsers and loaders once (before the workers fork)."""
    if _STATE:
        return
    global _DEVNULL
    _DEVNULL = open(os.devnull, 'w')
    import singlecellmultiomics.barcodeFileParser.barcodeFileParser as bfp
    from singlecellmultiomics.modularDemultiplexer import demultiplexingStrategyLoader as L
    from singlecellmultiomics.fastqProcessing import fastqHandle as FH
    loader_cls = bind.seam(L, 'DemultiplexingStrategyLoader')
    _STATE['FastqHandle'] = bind.seam(FH, 'FastqHandle')
    pkg = os.path.join(bind.REPO, 'singlecellmultiomics', 'modularDemultiplexer')
    bdir, idir = os.path.join(pkg, 'barcodes') + '/', os.path.join(pkg, 'indices') + '/'
    if not os.path.isdir(bdir) or not os.path.isdir(idir):
        raise bind.HarnessError(f'barcode / index directories missing under {pkg}')
    with contextlib.redirect_stdout(_DEVNULL), contextlib.redirect_stderr(_DEVNULL):
        ip = bfp.BarcodeParser(hammingDistanceExpansion=1, barcodeDirectory=idir)
        bps, loaders = {}, {}
        for hd in (0, 1):
            bps[hd] = bfp.BarcodeParser(hammingDistanceExpansion=hd, barcodeDirectory=bdir,
                                        lazyLoad=("10x_3M-february-2018",))
            loaders[hd] = loader_cls(barcodeParser=bps[hd], indexParser=ip, indexFileAlias=INDEX_ALIAS)
    if not hasattr(loaders[0], 'demultiplex'):
        raise bind.HarnessError('seam-missing DemultiplexingStrategyLoader.demultiplex')
    names = [s.shortName for s in loaders[0].demultiplexingStrategies]
    if len(set(names)) != len(names) or not names:
        raise bind.HarnessError(f'strategy short names not unique / empty: {names}')
    _STATE.update(bps=bps, ip=ip, loaders=loaders, names=names, alph={})
    try:
        for n in names:
            _STATE['alph'][n] = G.Alphabet(n, bps[0], bps[1], ip, INDEX_ALIAS)
    except G.GeneratorError as e:
        raise bind.HarnessError(f'C01 generator: {e}')


def _strategy(hd, short):
    for s in _STATE['loaders'][hd].demultiplexingStrategies:
        if s.shortName == short:
            return s
    raise bind.HarnessError(f'strategy {short} not registered')


# ------------------------------------------------------------------------------------------------ space
DEFAULT = {'end': 'pe', 'rejects': True, 'out': 'joint', 'hd': 0, 'max': None}


def _configs(tier):
    if tier == 'quick':
        out = [dict(DEFAULT)]
        for k, vals in (('end', ['se']), ('rejects', [False]), ('out', ['percell']), ('hd', [1]), ('max', [1, 2, 3])):
            for val in vals:
                c = dict(DEFAULT)
                c[k] = val
                out.append(c)
        return out
    return [{'end': e, 'rejects': r, 'out': o, 'hd': h, 'max': m}
            for e in ('pe', 'se') for r in (True, False) for o in ('joint', 'percell') for h in (0, 1)
            for m in (None, 1, 2, 3)]


def _phred_configs(tier):
    if tier == 'quick':
        return [dict(DEFAULT)]
    out = [dict(DEFAULT)]
    for k, val in (('end', 'se'), ('rejects', False), ('out', 'percell')):
        c = dict(DEFAULT)
        c[k] = val
        out.append(c)
    return out


def _phreds(tier):
    return QUICK_PHREDS if tier == 'quick' else list(range(94))


def bounds(tier):
    setup()
    alph = _STATE['alph']
    return {
        'strategies': _STATE['names'],
        'letters_per_strategy': {n: len(alph[n].letters) for n in _STATE['names']},
        'alphabet_example': alph.get('CS2C8U6', next(iter(alph.values()))).letters,
        'word_lengths': [1, 2, 'all-letters', f'each letter x {REPEAT}'],
        'configurations': len(_configs(tier)),
        'configuration_axes': {'end': ['pe', 'se'], 'rejects': [True, False], 'out': ['joint', 'percell'], 'hd': [0, 1],
                               'maxReadPairs': [None, 1, 2, 3],
                               'scope': 'default + every configuration at distance 1' if tier == 'quick' else 'full product'},
        'phreds': _phreds(tier),
        'phred_configurations': len(_phred_configs(tier)),
        'long_percell_word': {'pairs': LONG_PAIRS, 'maxHandles': 2,
                              'strategies': LONG_STRATEGIES_QUICK if tier == 'quick' else LONG_STRATEGIES_THOROUGH},
    }


REPEAT = 40
CLI_INPUT_FORMS = ('args-sorted', 'args-shuffled', 'listfile-sorted', 'listfile-mates-in-different-order', 'args-percell-rerun')


def shards(tier):
    setup()
    out = []
    for n in _STATE['names']:
        for c in _configs(tier):
            out.append(('words', n, c))
    for n in _STATE['names']:
        for c in _phred_configs(tier):
            out.append(('phred', n, c))
    for n in (LONG_STRATEGIES_QUICK if tier == 'quick' else LONG_STRATEGIES_THOROUGH):
        if n in _STATE['names']:
            out.append(('long', n, None))
    # the command line itself (demux.py run as a script in a fresh interpreter): how the input files are given
    for how in CLI_INPUT_FORMS:
        out.append(('cli', 'CS2C8U6', how))
    return out


def _words(short):
    letters = _STATE['alph'][short].letters
    for a in letters:
        yield [a]
    for a in letters:
        for b in letters:
            yield [a, b]
    yield list(letters)
    # one class many times in a row: counters / limiters that only change behaviour after N occurrences
    for a in letters:
        yield [a] * REPEAT


def _long_word(short):
    a = _STATE['alph'][short]
    cyc = ['W', 'W2', 'W3', 'W', 'W2', 'W3', 'U'] if 'W2' in a.bc and 'U' in a.bc else ['W', 'W', 'W', 'S']
    return [cyc[i % len(cyc)] for i in range(LONG_PAIRS)]


# ------------------------------------------------------------------------------------------------ one run
def _inputs(short, word):
    a = _STATE['alph'][short]
    return [a.pair(letter, k) for k, letter in enumerate(word)]


def run_case(case, workdir=None):
    """Run ONE case on the real loader; -> (violations [(signature, detail)], fates, processed)."""
    setup()
    short, cfg = case['strategy'], case['config']
    word = case['word'] if 'word' in case else _long_word(short)
    gz = bool(case.get('gz'))
    max_handles = case.get('maxHandles', 500)
    paired = cfg['end'] == 'pe'
    percell = cfg['out'] == 'percell'
    try:
        inputs = _inputs(short, word)
    except G.GeneratorError as e:
        raise bind.HarnessError(f'C01 generator: {e}')
    own = workdir is None
    d = tempfile.mkdtemp(prefix='c01_', dir='/dev/shm') if own else workdir
    try:
        files = []
        for mi in range(2 if paired else 1):
            p = os.path.join(d, f'in_R{mi + 1}.fastq' + ('.gz' if gz else ''))
            text = G.fastq_text([pr[mi] for pr in inputs])
            if gz:
                import gzip
                with gzip.open(p, 'wt', compresslevel=1) as f:
                    f.write(text)
            else:
                with open(p, 'w') as f:
                    f.write(text)
            files.append(p)
        odir = os.path.join(d, 'out')
        os.mkdir(odir)
        pd, pr_ = os.path.join(odir, 'demultiplexed'), os.path.join(odir, 'rejects')
        FastqHandle = _STATE['FastqHandle']
        loader = _STATE['loaders'][cfg['hd']]
        strategy = _strategy(cfg['hd'], short)
        log = io.StringIO()
        exc = None
        processed, yields = None, {}
        with contextlib.redirect_stdout(_DEVNULL), contextlib.redirect_stderr(_DEVNULL):
            target = reject = None
            try:
                # as demux.py: FastqHandle(prefix, paired_end, single_cell=args.scsepf, maxHandles=args.fh);
                # the rejects handle is always joint
                target = FastqHandle(pd, paired, single_cell=percell, maxHandles=max_handles)
                reject = FastqHandle(pr_, paired) if cfg['rejects'] else None
                processed, yields = loader.demultiplex(files, strategies=[strategy], targetFile=target,
                                                       rejectHandle=reject, log_handle=log, library=LIBRARY,
                                                       maxReadPairs=cfg['max'])
            except Exception as e:           # the loader loop itself gave up: every remaining pair is lost
                exc = e
            finally:
                for h in (target, reject):
                    if h is not None:
                        try:
                            h.close()
                        except Exception as e:
                            exc = exc or e
        ctx = cfg['end'] + (':percell' if percell else '') + ('' if cfg['rejects'] else ':norejects')
        if exc is not None:
            return ([(f'loader:exception:{type(exc).__name__}:{ctx}',
                      {'exception': repr(exc), 'input_R1': G.fastq_text([p[0] for p in inputs[:3]])})],
                    ['!'] * len(inputs), 0)
        out = O.collect(pd, pr_, paired, percell, cfg['rejects'])
        raw, fates = O.check(inputs, paired, percell, cfg['rejects'], cfg['max'], short, processed, dict(yields),
                             log.getvalue(), out)
        viols, seen = [], set()
        for clause, pos, detail in raw:
            sig = f'{clause}:{ctx}'
            if pos is not None:
                sig += ':' + G.letter_kind(word[pos])
            if sig in seen:
                continue
            seen.add(sig)
            info = {'what': detail, 'fates': ''.join(fates[:12]), 'returned': [processed, dict(yields)]}
            if pos is not None:
                info['offending_pair'] = {'position': pos, 'letter': word[pos],
                                          'R1': list(inputs[pos][0]), 'R2': list(inputs[pos][1]) if paired else None}
            viols.append((sig, info))
        return viols, fates, processed
    finally:
        if own:
            shutil.rmtree(d, ignore_errors=True)
        else:
            for fn in os.listdir(d):
                p = os.path.join(d, fn)
                if os.path.isdir(p):
                    shutil.rmtree(p, ignore_errors=True)
                else:
                    os.unlink(p)


def _outcome(cfg, fates):
    f = ''.join(fates)
    if len(f) > 3:
        f = ''.join(f'{ch}{f.count(ch)}' for ch in 'AR-?BD.!' if ch in f)
    return f'{cfg["end"]}:{cfg["out"]}:{f}'


def run_cli(short, how):
    """demux.py as a script on a lane split into two chunks per mate; -> (violations, fates)"""
    import gzip
    import subprocess
    import sys
    setup()
    word = ['W', 'U', 'W2', 'W', 'W3', 'S', 'W', 'W2', 'U', 'W', 'W3', 'T']
    word = [w for w in word if w in _STATE['alph'][short].letters or w in _STATE['alph'][short].bc] or ['W'] * 6
    try:
        inputs = _inputs(short, word)
    except G.GeneratorError as e:
        raise bind.HarnessError(f'C01 generator: {e}')
    d = tempfile.mkdtemp(prefix='c01cli_', dir='/dev/shm')
    try:
        half = len(inputs) // 2
        files = {}
        for ci, ch in enumerate((inputs[:half], inputs[half:])):
            for mi in range(2):
                p = os.path.join(d, f'LIB_L001_R{mi + 1}_00{ci + 1}.fastq.gz')
                with gzip.open(p, 'wt', compresslevel=1) as f:
                    f.write(G.fastq_text([pr[mi] for pr in ch]))
                files[(mi, ci)] = p
        order_sorted = [files[(0, 0)], files[(0, 1)], files[(1, 0)], files[(1, 1)]]
        if how in ('args-sorted', 'args-percell-rerun'):
            argv = order_sorted
        elif how == 'args-shuffled':
            argv = [files[(1, 1)], files[(0, 0)], files[(1, 0)], files[(0, 1)]]
        else:
            lst = os.path.join(d, 'files.list')
            order = order_sorted if how == 'listfile-sorted' else [files[(0, 0)], files[(0, 1)], files[(1, 1)], files[(1, 0)]]
            with open(lst, 'w') as f:
                f.write('\n'.join(order) + '\n')
            argv = [lst]
        out = os.path.join(d, 'out')
        script = os.path.join(bind.REPO, 'singlecellmultiomics', 'modularDemultiplexer', 'demux.py')
        env = dict(os.environ, PYTHONPATH=bind.REPO)
        percell = (how == 'args-percell-rerun')
        base = [sys.executable, script] + argv + ['--y', '-use', short, '-o', out] + (['--scsepf'] if percell else [])
        runs = [base + ['-n', '3'], base] if percell else [base]      # a try-out on a few reads, then the full run, same -o
        for cmd in runs:
            r = subprocess.run(cmd, capture_output=True, text=True, env=env, cwd=d, timeout=600)
            if r.returncode != 0:
                return [(f'cli:{how}:demux.py-exit-{r.returncode}', r.stderr[-600:])], []
        lib = os.path.join(out, 'LIB')
        if not os.path.isdir(lib):
            return [(f'cli:{how}:no-output-directory', os.listdir(out) if os.path.isdir(out) else None)], []
        if percell:
            # per-cell files are named <prefix>.<cell>.<MX>.R1.fastq.gz; collect() expects the prefix the handle was given
            res = O.collect(os.path.join(lib, 'demultiplexed'), os.path.join(lib, 'rejects'), True, True, True)
        else:
            res = O.collect(os.path.join(lib, 'demultiplexed'), os.path.join(lib, 'rejects'), True, False, True)
        logp = os.path.join(lib, 'demultiplexing.log')
        log_text = open(logp).read() if os.path.exists(logp) else ''
        processed, yields = O.parse_log(log_text)
        raw, fates = O.check(inputs, True, percell, True, None, short, processed if processed is not None else len(inputs),
                             yields or {short: sum(1 for _ in [])}, log_text, res)
        viols, seen = [], set()
        for clause, pos, detail in raw:
            if clause.startswith('yield-counter') or clause.startswith('processedReadPairs'):
                continue      # the log holds one block per chunk; the counters are judged at loader level
            sig = f'cli:{how}:{clause}'
            if sig not in seen:
                seen.add(sig)
                viols.append((sig, {'what': detail, 'fates': ''.join(fates)}))
        return viols, fates
    finally:
        shutil.rmtree(d, ignore_errors=True)


def run_shard(shard, tier, acc):
    setup()
    if shard[0] == 'cli':
        case = {'cli': shard[2], 'strategy': shard[1]}
        viols, fates = run_cli(shard[1], shard[2])
        acc.case(case, transitions=len(fates), nontrivial=True, outcome=f"cli:{shard[2]}:{''.join(fates)[:14]}")
        for sig, d in viols:
            acc.violation(sig, case, d)
        return
    kind, short, cfg = shard
    d = tempfile.mkdtemp(prefix='c01_', dir='/dev/shm')
    try:
        if kind == 'words':
            cases = ({'strategy': short, 'config': cfg, 'word': w, 'gz': len(w) > 2} for w in _words(short))
        elif kind == 'phred':
            def gen():
                for p in _phreds(tier):
                    q = f'Q{p}'
                    for w in ([q], [q, 'W'], ['W', q]):
                        yield {'strategy': short, 'config': cfg, 'word': w}
            cases = gen()
        elif kind == 'long':
            cases = [{'strategy': short, 'config': dict(DEFAULT, out='percell'), 'long': LONG_PAIRS, 'maxHandles': 2}]
        else:
            raise bind.HarnessError(f'unknown shard kind {kind}')
        for case in cases:
            viols, fates, processed = run_case(case, workdir=d)
            acc.case(case, transitions=max(processed or 0, 1), nontrivial=('A' in fates and 'R' in fates),
                     outcome=_outcome(case['config'], fates))
            acc.count('pairs_demultiplexed', fates.count('A'))
            acc.count('pairs_rejected', fates.count('R'))
            if 'A' in fates:
                acc.count(f'accepting:{short}', 1)
            if kind == 'long':
                acc.count('long_word_handle_limiter_writes', 2 * fates.count('A'))
            for sig, detail in viols:
                acc.violation(sig, case, detail)
    finally:
        shutil.rmtree(d, ignore_errors=True)


def replay(case):
    if 'cli' in case:
        return run_cli(case['strategy'], case['cli'])[0]
    if 'long' in case and case['long'] != LONG_PAIRS:
        raise bind.HarnessError('long word length changed since the replay was recorded')
    viols, _, _ = run_case(case)
    return viols
