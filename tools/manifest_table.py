"""Rows of the manifest: (id, technique, level text, level note)."""

TABLE = [
    ('C17',
     'explicit-state bounded-exhaustive enumeration of the real tiling functions (all regions x bin sizes x fragment sizes x blacklists up to the bound), partition/containment oracle with bitsets',
     'Every region [a,b) within 0..R, every bin size 1..R+2, fragment size in {None,0,1,2,R} and every blacklist of <=2 '
     '(thorough: <=3 for R=7) intervals with endpoints in -1..R+1 is run through the real blacklisted_binning; '
     'fill_range, trim_rangelist, merge_overlapping_ranges, bp_chunked and blacklisted_binning_contigs are exhausted on their own '
     'small spaces. The oracle is the property statement itself. Quick R=8 (2.8M cases), thorough R=12.',
     'Small-scope: coincidences needing coordinates beyond R or more than 2-3 blacklist intervals are not covered. '
     'Blacklists are passed sorted, as blacklisted_binning_contigs does.'),
    ('C03',
     'bounded-exhaustive enumeration of whitelists x expansion k x ALL query strings through the real BarcodeParser, brute-force nearest-neighbour oracle',
     'Every whitelist of <=3 barcodes of length 3 (thorough: also <=2 of length 4, 1 of length 5) over ACGTN, every k in 0..2 and every '
     'query string of that length go through addBarcode/expand/getIndexCorrectedBarcodeAndHammingDistance; every file layout x gz x '
     'eager/lazy loading; shipped whitelists against all 5^L queries (quick: 6-nt index list and the 8-nt DamID2 list; thorough: all '
     'shipped lists <=8 nt and the 10-nt DamID2 list).',
     'Whitelists are sets of equal-length ACGTN strings; geometry needing >3 barcodes is only covered through the shipped lists.'),
    ('C09',
     'bounded-exhaustive enumeration of fragment geometries on a known reference, each also as its mirror image on the reverse-complemented reference; simulator-truth + mirror-relation oracle on the real NlaIIIFragment / CHICFragment',
     'Full product of strand x single/paired x soft clip 0..6 x motif variant (exact, all 16 single-base substitutions incl. N, '
     'one-cycle shift, motif on the wrong end, two decoys) x allow_cycle_shift x check_motif x invert_strand x no_umi_cigar_processing '
     '(NlaIII) and trimmed/untrimmed x clip x R2 arrangement x invert_strand (CHIC): 3008 geometries, each executed on both strands. '
     'DS/RS/RZ/qcfail are compared with the simulated cut and with the mirrored twin.',
     'no_overhang mode and BAM-level fetch are not covered; check_motif=False only with full-length motif geometries; '
     'no_umi_cigar_processing only with unclipped reads.'),
]

# id -> reason it is currently not claimed
PENDING = {}
