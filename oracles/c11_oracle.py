"""Independent recomputation of a count table (C11).

Written from the property statement in /verif/properties.jsonl and from the help strings of the command line
(bamToCountTable.py --help); it works on the ABSTRACT description of a read (a dict, see gen/c11_reads.py), never
on a pysam object and never through code of the package.

Documentation used (help text quoted):
  --r1only "Only count R1"; --r2only "Only count R2"
  -minMQ "minimum mapping quality"                                  -> MAPQ >= minMQ passes
  --proper_pairs_only "Only count reads mapped in a proper pair"
  --no_indels "Only count reads without indels"                     -> no I and no D operation in the CIGAR
  --no_softclips "Only count reads without softclips"               -> no S operation
  -max_base_edits "Count reads with at most this value of bases being different than the reference"  -> NM <= value
  --filterXA "Do not count reads where the XA (alternative hits) tag has been set for a non-alternative locus."
  --filterMP "Filter reads which are not uniquely mappable, this is based on presence on the `mp` tag"
  --dedup  + property: "--dedup excluding duplicates and rejected reads"  -> duplicate flag or RR (reject reason) tag
  -blacklist "Bedfile of blacklist regions to exclude"
  --doNotDivideFragments "When used every read is counted once, a fragment will count as two reads. 0.5 otherwise"
  --divideMultimapping "Divide multimapping reads over all targets. Requires the XA or NH tag to be set."
  -byValue "Extract the value from the supplied tag and use this as count to add"
  -contig "Run only on this chromosome"; -bedfile "... chromo, start, end to be read for fetching counts"
  property: mapped, not qc-failed; "half per mate unless fragment division is disabled or one mate is selected";
  "multimapping division splits that weight over the reported hits"; "by-value counting adds the tag's numeric value".

Where these texts are silent or ambiguous the oracle answers AMBIGUOUS and the check does not compare:
  * unpaired read with --r1only / --r2only (is a single-end read "R1"?),
  * read without NM tag under -max_base_edits,
  * read without mp tag, or with a value other than unique / bad, under --filterMP,
  * XA and NH both present and disagreeing about the number of hits under --divideMultimapping,
  * a read touching a blacklist / BED region only partly (only fully inside / fully outside are generated).
For -byValue combined with a weight that would not be 1 (mate halves, multimapping division) both the literal value
and value x weight are accepted (the help says the value is "the count to add" and is silent on the interaction).
"""

AMBIGUOUS = 'ambiguous'


def xa_entries(xa):
    """bwa XA:Z value 'chr,pos,CIGAR,NM;' per alternative hit (trailing semicolon) -> list of contig names"""
    return [e.split(',')[0] for e in xa.split(';') if e]


def passes(rd, opt, blacklist=None):
    """True / False / AMBIGUOUS: does the read pass every selected filter?
    blacklist: None or {contig: [(start, end), ...]} (half-open)."""
    amb = False
    if rd['unmapped']:
        return False
    if rd['qcfail']:
        return False
    if opt['r1only'] or opt['r2only']:
        if rd['role'] == 'single':
            amb = True
        else:
            if opt['r1only'] and rd['role'] != 'R1':
                return False
            if opt['r2only'] and rd['role'] != 'R2':
                return False
    if rd['mapq'] < opt['minMQ']:
        return False
    if opt['proper_pairs_only'] and not (rd['role'] != 'single' and rd['proper'] and not rd['mate_unmapped']):
        return False
    ops = set(c for c in rd['cigar'] if c.isalpha())
    if opt['no_indels'] and (ops & {'I', 'D'}):
        return False
    if opt['no_softclips'] and 'S' in ops:
        return False
    if opt['max_base_edits'] is not None:
        if rd['NM'] is None:
            amb = True
        elif rd['NM'] > opt['max_base_edits']:
            return False
    if opt['filterXA'] and rd['XA'] is not None:
        if any(not c.endswith('_alt') for c in xa_entries(rd['XA'])):
            return False
    if opt['filterMP']:
        if rd['mp'] == 'bad':
            return False
        if rd['mp'] != 'unique':
            amb = True
    if opt['dedup'] and (rd['dup'] or rd['RR']):
        return False
    if blacklist:
        s, e = rd['pos'], rd['pos'] + ref_span(rd['cigar'])
        for bs, be in blacklist.get(rd['contig'], ()):
            if bs <= s and e <= be:
                return False          # fully inside an excluded region
            if s < be and bs < e:
                amb = True            # partial overlap: not generated, but never guessed either
    return AMBIGUOUS if amb else True


def ref_span(cigar):
    n, num = 0, ''
    for c in cigar:
        if c.isdigit():
            num += c
        else:
            if c in 'MDN=X':
                n += int(num)
            num = ''
    return n


def weights(rd, opt):
    """Set of acceptable increments of ONE table cell for a counted read, or AMBIGUOUS."""
    if opt['r1only'] or opt['r2only'] or opt['doNotDivideFragments']:
        w = 1.0
    elif rd['role'] != 'single' and not rd['mate_unmapped']:
        w = 0.5
    else:
        w = 1.0
    if opt['divideMultimapping']:
        n_xa = (len(xa_entries(rd['XA'])) + 1) if rd['XA'] is not None else None     # alternatives + the hit itself
        n_nh = rd['NH']
        if n_xa is not None and n_nh is not None and n_xa != n_nh:
            return AMBIGUOUS
        n = n_xa if n_xa is not None else n_nh
        if n is not None:
            w = w / n
    if opt['features'] == 'joined+byValue':
        v = float(rd['RC'])
        return {v} if w == 1.0 else {v, v * w}
    return {w}


def keys(rd, opt, contig_names):
    """The table cells (feature keys, as tuples of strings) a counted read contributes to."""
    xt, chrom = str(rd['XT']), contig_names[rd['contig']]
    if opt['features'] == 'single':          # -featureTags XT,chrom : one-dimensional, one row per tag value
        return [(xt,), (chrom,)]
    return [(xt, chrom)]                      # -joinedFeatureTags XT,chrom (+ -byValue RC)


def sample(rd, sample_tags=('SM',)):
    return tuple(rd[t] for t in sample_tags)


def expected_read(rd, opt, contig_names, blacklist=None, sample_tags=('SM',)):
    """-> AMBIGUOUS, or {(sample, key): set of acceptable values}  ({} = the read must not contribute)"""
    p = passes(rd, opt, blacklist)
    if p is False:
        return {}
    if p == AMBIGUOUS:
        return AMBIGUOUS
    w = weights(rd, opt)
    if w == AMBIGUOUS:
        return AMBIGUOUS
    sm = sample(rd, sample_tags)
    return {(sm, k): set(w) for k in keys(rd, opt, contig_names)}


def expected_table(reads, opt, contig_names, blacklist=None, sample_tags=('SM',), contig=None, bed=None):
    """Whole-table recomputation.
    Returns (cells, ambiguous_cells): cells {(sample, key): set of acceptable totals}; any cell an ambiguous read could
    contribute to is listed in ambiguous_cells (as a predicate input: (sample, key prefix)) and is not compared.
    contig: only reads of this contig ("Run only on this chromosome").
    bed: [(contig, start, end, name)]: only reads inside a region; key gets (start, end, name) appended."""
    cells, amb = {}, set()
    for rd in reads:
        cname = contig_names[rd['contig']]
        if contig is not None and cname != contig:
            continue
        suffixes = [()]
        if bed is not None:
            s, e = rd['pos'], rd['pos'] + (ref_span(rd['cigar']) if not rd['unmapped'] else 1)
            suffixes = []
            partial = False
            for bc, bs, be, bn in bed:
                if bc != cname:
                    continue
                if bs <= s and e <= be:
                    suffixes.append((bs, be, bn))
                elif s < be and bs < e:
                    partial = True
            if partial:
                amb.add(sample(rd, sample_tags))
                continue
        ex = expected_read(rd, opt, contig_names, blacklist, sample_tags)
        if ex == AMBIGUOUS:
            amb.add(sample(rd, sample_tags))
            continue
        for (sm, k), ws in ex.items():
            for suf in suffixes:
                cell = (sm, k + suf)
                prev = cells.get(cell, {0.0})
                cells[cell] = {a + b for a in prev for b in ws}
    return cells, amb


def why_not(rd, opt, blacklist=None):
    """Names of the documented clauses that exclude the read (only used to NAME a violated clause in a signature)."""
    out = []
    if rd['unmapped']:
        out.append('unmapped')
    if rd['qcfail']:
        out.append('qcfail')
    if rd['role'] != 'single':
        if opt['r1only'] and rd['role'] != 'R1':
            out.append('r1only')
        if opt['r2only'] and rd['role'] != 'R2':
            out.append('r2only')
    if rd['unmapped']:
        return out
    if rd['mapq'] < opt['minMQ']:
        out.append('minMQ')
    if opt['proper_pairs_only'] and not (rd['role'] != 'single' and rd['proper'] and not rd['mate_unmapped']):
        out.append('proper_pairs_only')
    ops = set(c for c in rd['cigar'] if c.isalpha())
    if opt['no_indels'] and (ops & {'I', 'D'}):
        out.append('no_indels')
    if opt['no_softclips'] and 'S' in ops:
        out.append('no_softclips')
    if opt['max_base_edits'] is not None and rd['NM'] is not None and rd['NM'] > opt['max_base_edits']:
        out.append('max_base_edits')
    if opt['filterXA'] and rd['XA'] is not None and any(not c.endswith('_alt') for c in xa_entries(rd['XA'])):
        out.append('filterXA')
    if opt['filterMP'] and rd['mp'] == 'bad':
        out.append('filterMP')
    if opt['dedup'] and (rd['dup'] or rd['RR']):
        out.append('dedup')
    if blacklist:
        s, e = rd['pos'], rd['pos'] + ref_span(rd['cigar'])
        if any(bs <= s and e <= be for bs, be in blacklist.get(rd['contig'], ())):
            out.append('blacklist')
    return out
