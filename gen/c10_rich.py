"""Generators private to C10 (the shared count-table helpers stay in gen/c10_counttable.py, which C11 uses too).

* `rich_reads(...)`: the table-level BAM content.  For EVERY coordinate 0..len+2 of every contig one read (or pair)
  carrying the coordinate under four differently typed bin tags / attributes (DS int, XP int mirrored, ZS string typed
  and rotated, reference_start), two sample tags (SM, LY), a further feature tag (DA) and a value tag (XV); unpaired reads
  alternate strand.  Extra letters per contig: a read without DS, a read without XP/ZS, a qc-failed read, an unmapped
  (placed) read.  Returns the reads and one truth record per read.
* `write_bam_ordered(...)`: writes a sorted, indexed BAM and returns the truth records IN FILE ORDER (needed for -head).
* `split_inputs(...)`: BAM + probability matrix for split_double_BAM: one pair for every (cell, coordinate), one cell per
  genomic bin whose probability row is 1 for exactly that bin.
"""
import pysam

from gen import c10_counttable as G

BIN_TAGS = ('DS', 'XP', 'reference_start', 'ZS')


def _record(name, contig, coords, sm, ly, da, xv, counted, paired):
    return {'name': name, 'contig': contig, 'coords': coords, 'SM': sm, 'LY': ly, 'DA': da, 'XV': xv,
            'counted': counted, 'paired': paired}


def rich_reads(hdr, lens, layout):
    reads, truth = [], []
    for ci, L in enumerate(lens):
        contig = f'chr{ci + 1}'
        top = L + 2
        for p in range(0, top + 1):
            sm = 'A' if p % 2 == 0 else 'B'
            ly = 'L2' if p % 3 == 0 else 'L1'
            da = 'x' if (p // 2) % 2 == 0 else 'y'
            xv = p % 3 + 1
            xp = top - p
            zs = (p + 3) % (top + 1)
            pos = min(p, L - 1)                      # reference_start runs over 0..L-1 (first and last base included)
            cigar = f'{min(4, L - pos)}M'
            tags = [('SM', sm), ('LY', ly), ('DA', da), ('XV', xv), ('DS', p), ('XP', xp), ('ZS', str(zs))]
            coords = {'DS': p, 'XP': xp, 'ZS': zs, 'reference_start': pos}
            name = f'{contig}_{p}'
            if layout == 'single':
                reads.append(G.mk_read(hdr, name, ci, pos, cigar=cigar, tags=tags, reverse=(p % 3 == 1)))
                truth.append(_record(name, contig, coords, sm, ly, da, xv, True, False))
            else:
                reads.append(G.mk_read(hdr, name, ci, pos, cigar=cigar, tags=tags, paired=True, read2=False))
                reads.append(G.mk_read(hdr, name, ci, pos, cigar=cigar, tags=tags, paired=True, read2=True, reverse=True))
                truth.append(_record(name, contig, coords, sm, ly, da, xv, True, True))
                truth.append(_record(name, contig, coords, sm, ly, da, xv, True, True))
        common = [('SM', 'A'), ('LY', 'L1'), ('DA', 'x'), ('XV', 2)]
        cg = f'{min(4, L)}M'
        # a counted read that lacks the DS tag (its DS coordinate does not exist), and one lacking XP and ZS
        reads.append(G.mk_read(hdr, f'{contig}_noDS', ci, 0, cigar=cg, tags=common + [('XP', 1), ('ZS', '2')]))
        truth.append(_record(f'{contig}_noDS', contig, {'DS': None, 'XP': 1, 'ZS': 2, 'reference_start': 0},
                             'A', 'L1', 'x', 2, True, False))
        reads.append(G.mk_read(hdr, f'{contig}_noXP', ci, 0, cigar=cg, tags=common + [('DS', 1)]))
        truth.append(_record(f'{contig}_noXP', contig, {'DS': 1, 'XP': None, 'ZS': None, 'reference_start': 0},
                             'A', 'L1', 'x', 2, True, False))
        # reads which are never counted: qc-failed, unmapped (placed on the contig)
        full = common + [('DS', 0), ('XP', 0), ('ZS', '0')]
        reads.append(G.mk_read(hdr, f'{contig}_qcfail', ci, 0, cigar=cg, tags=full, qcfail=True))
        truth.append(_record(f'{contig}_qcfail', contig, {'DS': 0, 'XP': 0, 'ZS': 0, 'reference_start': 0},
                             'A', 'L1', 'x', 2, False, False))
        reads.append(G.mk_read(hdr, f'{contig}_unmapped', ci, 0, tags=full, unmapped=True, seqlen=4))
        truth.append(_record(f'{contig}_unmapped', contig, {'DS': 0, 'XP': 0, 'ZS': 0, 'reference_start': 0},
                             'A', 'L1', 'x', 2, False, False))
    return reads, truth


def write_bam_ordered(path, hdr, reads, truth):
    order = sorted(range(len(reads)), key=lambda i: (reads[i].reference_id if reads[i].reference_id >= 0 else 1 << 30,
                                                     reads[i].reference_start, i))
    with pysam.AlignmentFile(path, 'wb', header=hdr) as out:
        for i in order:
            out.write(reads[i])
    pysam.index(path)
    return [truth[i] for i in order]


def split_inputs(bam_path, mat_path, lens, b):
    """contigs are named '1', '2', ... (split_double_BAM strips 'chr' from the matrix row names and compares with the
    reference names of the BAM).  Returns [(query name, contig, coordinate, cell, k0)]."""
    hdr = G.header([(str(ci + 1), L) for ci, L in enumerate(lens)])
    reads, pairs, rows, cells = [], [], [], []
    for ci, L in enumerate(lens):
        contig = str(ci + 1)
        top = L + 2
        K = top // b
        for k0 in range(K + 1):
            cell = f'c{contig}k{k0}'
            cells.append((cell, contig, k0))
            for p in range(0, top + 1):
                pos = min((p + 3) % (top + 1), L - 1)       # the mapping position differs from the DS coordinate
                cigar = f'{min(4, L - pos)}M'
                tags = [('SM', cell), ('DS', p)]
                name = f'{cell}_p{p}'
                reads.append(G.mk_read(hdr, name, ci, pos, cigar=cigar, tags=tags, paired=True, read2=False))
                reads.append(G.mk_read(hdr, name, ci, pos, cigar=cigar, tags=tags, paired=True, read2=True, reverse=True))
                pairs.append((name, contig, p, cell, k0))
        for k in range(K + 1):
            rows.append((contig, k))
    G.write_bam(bam_path, hdr, reads)
    with open(mat_path, 'w') as f:
        f.write('\t' + '\t'.join(c for c, _, _ in cells) + '\n')
        for contig, k in rows:
            vals = ['1' if (cc == contig and k0 == k) else '0' for _, cc, k0 in cells]
            f.write(f'chr{contig}:{k * b}-{(k + 1) * b}\t' + '\t'.join(vals) + '\n')
    return pairs
