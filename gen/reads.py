"""In-memory pysam read construction shared by the fragment/molecule level checks."""
import pysam

COMP = str.maketrans('ACGTN', 'TGCAN')


def revcomp(s):
    return s.translate(COMP)[::-1]


def debruijn_like(n, avoid=('CATG',), seed_word='ACGGTCCAGTTAGCTAAGCGTACCTTGACTGGAATCGCAGGCTTCAATGGTACGACCTAGTCGGATTCCGAAGTCTAACGGCTTAGGACTCATTGCGATAAGCCTGAACCGTTAGAGTCCTTAACGCTGGATACGGTTCAGAGCTATTCGGAGTTACCGATCTGGTAAGGCCTATAGACGTTCGAATCCTGTAGGTCAAGCTCTGATTACGCGAATAGCCTTCGTAACTGACCGGATAGTTCCAATGCGTCTTGAACGGAATTCGCTAACCTGGTCTATCGGTACTTGAGGCAACGTATCGCTTGACCTAAGTGCGGTATTCCGACTAGGTTAACGCCATAAGTCGCTGATCCGTAAGCTTGGCAATACCGTGAATCGGCTTACTAGGAACCGATTAGCGTCAATTCGGACTTAAGC'):
    """Deterministic reference of length n which contains none of the `avoid` words (nor their
    reverse complements); derived from a fixed word by skipping offending bases."""
    out = []
    i = 0
    w = seed_word
    bad = set(avoid) | {revcomp(a) for a in avoid}
    L = max(len(a) for a in bad) if bad else 0
    k = 0
    while len(out) < n:
        c = w[i % len(w)]
        i += 1
        cand = ''.join(out[-(L - 1):]) + c if L > 1 else c
        if any(cand.endswith(b) for b in bad):
            k += 1
            if k > 10 * len(w):
                raise ValueError('cannot build reference')
            continue
        out.append(c)
    return ''.join(out)


def header(contigs):
    """contigs: list of (name, length)"""
    return pysam.AlignmentHeader.from_dict({
        'HD': {'VN': '1.5', 'SO': 'coordinate'},
        'SQ': [{'SN': n, 'LN': l} for n, l in contigs]})


def make_read(hdr, name, seq, contig, pos, cigar, reverse=False, read1=True, paired=True, mate=None,
              qual=None, mapq=60, tags=None, unmapped=False, proper=True, flag_extra=0):
    """contig: contig name (or None when unmapped); cigar: string like '3S17M'.
    mate: (contig, pos, reverse, unmapped) of the mate or None."""
    r = pysam.AlignedSegment(hdr)
    r.query_name = name
    r.query_sequence = seq
    if qual is None:
        qual = 'I' * len(seq)
    r.query_qualities = pysam.qualitystring_to_array(qual)
    flag = 0
    if paired:
        flag |= 0x1
        flag |= 0x40 if read1 else 0x80
        if proper and not unmapped and mate is not None and not mate[3]:
            flag |= 0x2
    if unmapped:
        flag |= 0x4
    if reverse:
        flag |= 0x10
    if paired and mate is not None:
        if mate[3]:
            flag |= 0x8
        if mate[2]:
            flag |= 0x20
    flag |= flag_extra
    r.flag = flag
    if unmapped:
        r.reference_id = -1 if contig is None else hdr.get_tid(contig)
        r.reference_start = -1 if contig is None else pos
        r.mapping_quality = 0
    else:
        r.reference_id = hdr.get_tid(contig)
        r.reference_start = pos
        r.cigarstring = cigar
        r.mapping_quality = mapq
    if paired and mate is not None and mate[0] is not None:
        r.next_reference_id = hdr.get_tid(mate[0])
        r.next_reference_start = mate[1]
    else:
        r.next_reference_id = -1
        r.next_reference_start = -1
    for k, v in (tags or {}).items():
        r.set_tag(k, v)
    return r
