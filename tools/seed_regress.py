#!/venv/bin/python
"""Regression over the seeded property-breaking changes: every change a check caught before must still be caught.

usage: tools/seed_regress.py <PROP e.g. C09 | all> <scratch worktree> [--tier=quick] [--only=name,name]

For every /verif/seeded/<name>/ whose meta.json lists PROP in caught_by: apply patch.diff in the scratch worktree,
run `./check PROP` with VERIF_REPO=<worktree> (evidence redirected), expect exit 1, revert. /repo is never touched.
Also runs the check once on the clean worktree and expects exit 0. Exit 0 iff everything is as expected.
"""
import json
import os
import re
import subprocess
import sys
import time

VERIF = os.path.dirname(os.path.dirname(os.path.abspath(__file__)))


def sh(cmd, cwd=None, env=None):
    p = subprocess.run(cmd, shell=True, cwd=cwd, env=env, capture_output=True, text=True)
    return p.returncode, p.stdout + p.stderr


def main():
    prop, wt = sys.argv[1:3]
    tier = 'quick'
    only = None
    for a in sys.argv[3:]:
        if a.startswith('--tier='):
            tier = a.split('=', 1)[1]
        if a.startswith('--only='):
            only = set(a.split('=', 1)[1].split(','))
    env = dict(os.environ, VERIF_REPO=wt, VERIF_EVIDENCE_DIR=os.path.join(wt, '_ev'))
    todo = []
    for name in sorted(os.listdir(os.path.join(VERIF, 'seeded'))):
        mp = os.path.join(VERIF, 'seeded', name, 'meta.json')
        if not os.path.exists(mp):
            continue
        meta = json.load(open(mp))
        for c in meta.get('caught_by', []):
            if (prop == 'all' or c == prop) and (only is None or name in only):
                todo.append((name, c))
    bad = 0
    sh('git checkout -- . && git clean -fdq data', cwd=wt)
    for c in sorted({c for _, c in todo}):
        t = time.time()
        rc, out = sh(f'./check {c} --tier {tier}', cwd=VERIF, env=env)
        print(f'clean {c} exit={rc} {time.time() - t:.0f}s', flush=True)
        if rc != 0:
            bad += 1
            print('\n'.join(l for l in out.splitlines() if 'VIOLATION' in l or 'ERROR' in l or 'signature=' in l)[:2000])
    for name, c in todo:
        rc, out = sh(f'git apply {os.path.join(VERIF, "seeded", name, "patch.diff")}', cwd=wt)
        if rc != 0:
            print(f'{name}: patch does not apply any more: {out.strip()[:200]}')
            bad += 1
            continue
        try:
            t = time.time()
            rc, out = sh(f'./check {c} --tier {tier}', cwd=VERIF, env=env)
            sigs = re.findall(r'signature=(\S+)', out)
            print(f'{name} {c} exit={rc} {time.time() - t:.0f}s {sigs[:2]}', flush=True)
            if rc != 1:
                bad += 1
                print('   MISSED' if rc == 0 else '   HARNESS ERROR: ' + ' | '.join(l for l in out.splitlines() if 'ERROR' in l)[:500])
        finally:
            sh('git checkout -- . && git clean -fdq data; rm -rf _ev', cwd=wt)
    print('regress', 'OK' if not bad else f'{bad} PROBLEMS')
    sys.exit(1 if bad else 0)


if __name__ == '__main__':
    main()
