"""Rows of the manifest: (id, technique, level text, level note)."""

TABLE = [
    ('C17',
     'explicit-state bounded-exhaustive enumeration of the real tiling functions (all regions x bin sizes x fragment sizes x blacklists up to the bound), partition/containment oracle with bitsets',
     'Every region [a,b) within 0..R, every bin size 1..R+2, fragment size in {None,0,1,2,R} and every blacklist of <=2 (both orders) '
     '(thorough: <=3 for R=7) intervals with endpoints in -1..R+1 is run through the real blacklisted_binning; '
     'fill_range, trim_rangelist, merge_overlapping_ranges, bp_chunked and blacklisted_binning_contigs are exhausted on their own '
     'small spaces. The oracle is the property statement itself. Quick R=8 (2.8M cases), thorough R=12.',
     'Small-scope: coincidences needing coordinates beyond R or more than 2-3 blacklist intervals are not covered. '
     'Blacklists are passed sorted, as blacklisted_binning_contigs does.'),
    ('C03',
     'bounded-exhaustive enumeration of whitelists x expansion k x ALL query strings through the real BarcodeParser, brute-force nearest-neighbour oracle',
     'Every whitelist of <=3 barcodes of length 3 (thorough: also <=2 of length 4, 1 of length 5) over ACGTN, every k in 0..2 and every '
     'query string of that length go through addBarcode/expand/getIndexCorrectedBarcodeAndHammingDistance; every file layout x gz x '
     'eager/lazy loading x accessor used before the first lookup (parser[alias], another alias, getTargetCount), with a twin alias holding the same barcodes under other indices in the same parser; one parser holding the whole shipped indices/ directory; shipped whitelists against all 5^L queries (quick: 6-nt index list and the 8-nt DamID2 list, and one process holding a barcodes/ parser followed by an indices/ parser; thorough: all '
     'shipped lists <=8 nt and the 10-nt DamID2 list).',
     'Whitelists are sets of equal-length ACGTN strings; geometry needing >3 barcodes is only covered through the shipped lists.'),
    ('C09',
     'bounded-exhaustive enumeration of fragment geometries on a known reference, each also as its mirror image on the reverse-complemented reference; simulator-truth + mirror-relation oracle on the real NlaIIIFragment / CHICFragment',
     'Sites in the middle of the contig and on coordinate 0 (mirror: the last bases); full product of strand x single/paired x soft clip 0..6 x motif variant (exact, all 16 single-base substitutions incl. N, '
     'one-cycle shift, motif on the wrong end, two decoys) x allow_cycle_shift x check_motif x invert_strand x no_umi_cigar_processing '
     '(NlaIII) and trimmed/untrimmed x clip x R2 arrangement x invert_strand (CHIC): 3008 geometries, each executed on both strands. '
     'DS/RS/RZ/qcfail are compared with the simulated cut and with the mirrored twin.',
     'no_overhang mode and BAM-level fetch are not covered; check_motif=False only with full-length motif geometries; '
     'no_umi_cigar_processing only with unclipped reads.'),
    ('C16',
     'explicit-state search over operation histories (add* sort query*)^r on a fresh real FeatureContainer per history, brute-force interval-overlap reference model compared in every state',
     'All histories of 2 rounds (thorough: also 3 rounds on a smaller alphabet and larger first rounds) in which each round adds a multiset '
     'of <=2 features out of all closed intervals over 0..3 x strand (+2 on a second contig), re-indexes, and then issues no query or ALL '
     'point/range/read queries; every answer is compared with brute-force overlap on the current feature multiset, so stale memoised '
     'answers and a stale index are plain mismatches. Molecule annotation (methods 0/1, stranded None/same/other) on all single-round histories.',
     'Histories always sort() between additions and queries (the quantifier of the property); memo emptied before each history; '
     'GTF/BED loaders are not driven.'),
    ('C10',
     'bounded-exhaustive enumeration of coordinate x bin size x sliding increment on both copies of the bin arithmetic, on assignReads, and on count tables produced by the real create_count_table from synthesised BAMs; set-definition oracle',
     'Every point 0..N, bin 1..B, increment 1..bin (quick N=120,B=24; thorough N=600,B=60) on both copies of coordinate_to_bins / '
     'coordinate_to_sliding_bin_locations; assignReads for every coordinate 0..L+2 x (b,s) x keepOverBounds x bin tag x weight; full count '
     'tables (768 quick / 6720 thorough) from BAMs holding a read on every coordinate, every cell compared with the defining window set; two alignment files whose headers give a contig different lengths, in both orders.',
     'Small contigs (tens of bases); weights limited to single reads and mate halves.'),
    ('C11',
     'bounded-exhaustive enumeration of option sets x reads (all reads within 2 attribute changes of a plain read) on read_should_be_counted/assignReads and on create_count_table; independent recomputation oracle from the property text and CLI help',
     'Level 1: ~500 reads (incl. a falsy feature value 0) x all option sets within distance 3 of the default (quick) / all 24576 option sets (thorough). Level 2: the same '
     'reads in one BAM through create_count_table with -contig, -bedfile and an unsorted blacklist BED, option sets within distance 2 (quick) / 3 (thorough). '
     'Interactions the documentation leaves open are executed but not judged (about 3.5% of cases, listed in the evidence assumptions).',
     'The oracle follows the CLI help strings; undocumented interactions (byValue x divided weight, NM missing, XA vs NH disagreement) are not judged.'),
    ('C02',
     'bounded-exhaustive enumeration of read-length pairs, barcode substitutions and barcode placements per registered strategy with position-coded reads; documentation-derived layout table + table-free window invariants',
     'All 28 registered strategies x 3 whitelisted barcodes x all read-length pairs (quick 0..P+8 and 100/149/150; thorough 0..150 x 0..48,150) '
     'x every ACGTN substitution at every barcode position (expansion 1) x barcode planted -2..+2 off its documented position; composite '
     'strategies get their content classes. Reads are position-coded (de-Bruijn bases, position-dependent qualities) so every emitted base '
     'and tag identifies its mate and offset.',
     'The layout table is a transcription of the class descriptions/TAGS.MD; rows backed only by code comments are marked weak and cannot alarm. '
     'CHROMC16U12 is vacuous (whitelist emptied in this snapshot).'),
    ('C04',
     'bounded-exhaustive enumeration of strategies x header shapes x every phred character at every encoded quality position x library-name lengths through demultiplex -> asFastq -> pysam read name -> QueryNameFlagger.digest; field-by-field round-trip oracle',
     'Every strategy x accepted Illumina header shape x every phred char 33..126 at every quality position stored in the name x int/str cell '
     'indices x library lengths moving the name across 240..260 (thorough 225..280); the pure codec on all 94 chars and all 8836 pairs. '
     'Decoded BC/bc/bi/RX/RQ/LY/MX/aa/aA/Is/RN/Fc/La/Ti/CX/CY, SM and MI are compared with what was encoded; over-long names must be refused; one '
     'flagger instance decoding the reads of all strategies in sequence (3 orders) must equal a fresh flagger per read.',
     'MI/SM only demanded when the encoder produced the fields they derive from; qualities above the top letter saturate by design.'),
    ('C19',
     'fault enumeration / deviation-bounded exploration of the real HandleLimiter and FastqHandle over an in-memory file store with a descriptor budget: every write word x limiter setting x fault plan (EMFILE budgets, every placement of <=2 transient open failures, permanent path failure)',
     'All write sequences (up to path renaming) of length <=7 (thorough <=9, and 4 paths <=7) over 3 paths x maxHandles 1..4 x pruneEvery '
     '{1,2,3,4,10000} x gzip/plain x fault plans: none, EMFILE (and ENFILE) when >=k descriptors are open (k=1..3), every single failing open() call as EMFILE and as ENFILE, every pair of failing calls, and the same with stale files of an earlier run at the paths or after an earlier writer object of the same process '
     '(placements discovered from the execution, deviation bound 2), one permanently failing path; plus FastqHandle(single_cell=True) words and a '
     '200-path sweep. Oracle: per-path log of acknowledged payloads vs gunzipped content of every file; a raise is legitimate only if the '
     'failing open happened with no other descriptor open.',
     'The OS is an in-memory store: only open() fails, and only as injected; after a legitimate raise the run stops.'),
    ('C01',
     'bounded-exhaustive enumeration of read-pair class words x strategies x loader configurations through the real loader loop, FASTQ reader and gzip writers; accounting oracle (each input pair exactly once in demultiplexed XOR rejects, mate-synchronised, counters = records written)',
     'For each of the 28 registered strategies: all words of length <=2 over a 10-22 letter alphabet of read-pair classes (whitelisted, '
     '1-mismatch, unknown, truncated, short, empty, N, composite-branch classes, 8 header shapes) plus the word with every class and every class repeated 40 times, x '
     'paired/single end x rejects on/off x joint/per-cell x Hamming expansion x maxReadPairs (quick: default configuration and all at '
     'distance 1; thorough: full product), a phred sweep (thorough: all 0..93) and a 7000-pair per-cell word that drives the handle limiter '
     'through prune and re-open, and demux.py itself run as a script on a chunked lane (file arguments sorted/shuffled, list files, try-out run followed by the full run into the same per-cell output). Outputs are parsed strictly and accounted per input id.',
     'Without a reject handle only the demultiplexed side and the counters are compared; one strategy per run; '
     'CHROMC16U12 rejects everything (emptied whitelist).'),
    ('C13',
     'bounded-exhaustive enumeration of fragment words (every ordered word = every multiset in every insertion order) over per-position contribution kinds, plus 3-position window cases, on the real Molecule.get_consensus; brute-force vote oracle and permutation/doubling invariance',
     'Every ordered word of <=5 (thorough <=7) fragments over 8 position-level kinds (not covering, single-end A/C, N, mates agree, R1/R2 '
     'disagree with either mate better, equal-quality disagreement), 13 kinds (third base, N-vs-base mates, phred-0 calls) at <=4 (<=5); each multiset also doubled (appended and '
     'interleaved) and queried after other queries with different arguments on the same molecule; window level: 3 adjacent positions, <=3 fragments, all covered sub-windows, both strands, soft clip / deletion / '
     'insertion / skip reads, dove_safe on and off. Oracle: one call per fragment (better mate; tie or N = no call), strict plurality or absent.',
     'Fragments have an R1 (R2-only fragments are skipped by the code); qualities limited to two levels.'),
    ('C15',
     'bounded-exhaustive enumeration of coverage shapes (multisets of <=3 fragment letters: mate gap x mismatch class x read length, both strands, Nla/CHIC/plain classes) through deduplicate_majority, write_pysam(consensus=True), run_tagging_task and the real --consensus --multiprocess command line; well-formedness oracle',
     'All multisets of <=3 fragment letters (single end, overlapping, adjacent, small gap, gap beyond max_N_span; clean / R1 mismatch at q30 '
     'or q10 / R2 mismatch / R1 with a one-base insertion; two read lengths) x strand x molecule class x max_N_span None/5 x with/without source reads, molecules with a fragment cap below the number of fragments offered (TF), a consensus requested before the molecule is complete, and phred 50/60 conflicts. Oracle: aligned '
     'blocks == union of read coverage, len(seq)==len(qual)==CIGAR query length, MD rebuilt against the true reference, unanimous => that '
     'base, symmetric evidence => N, dominating evidence => that base, SM/RX/DS/TF/TR tags equal the molecule\'s.',
     'Reads with N bases and CHIC molecules with assignment radius >0 are not generated; "no record skips more than max_N_span" is taken from the parameter name.'),
    ('C07',
     'schedule enumeration: every check_eject_every in {None,0..n} x pooling method x cache size x fragment class for every coordinate-ordered multiset-word of fragment letters, on the real MoleculeIterator; differential oracle against the never-eject run',
     'All multisets of <=5 (thorough <=6) fragments over 12 letters (5 sites placed around the half-cache margin, short and long fragments, '
     'two cells, two UMIs, a reverse-strand fragment, a second contig), delivered in coordinate order with every order among ties, x every '
     'ejection interval None,0..n x pooling 0/1 x cache 100/1000 x NlaIII / CHIC radius 0 / CHIC radius 15; the same for the plain Fragment/Molecule classes over 17 letters (single-end reads sharing starts or ends, a same-strand pair, a second contig, a fragment that fits two molecules) and re-iteration of an iterator object after an abandoned iteration. Oracle: partition equals the '
     'never-eject partition, every fragment emitted exactly once, pooling methods agree for exact UMIs on site-exact classes. '
     'Non-prefix ejections are counted as the non-trivial cases.',
     'Fragments span < half the cache size; UMIs compared exactly; input order = order in which a sorted BAM reader completes the pairs.'),
    ('C18',
     'explicit-state search over histories of resolver runs sharing one cache directory (state = exact cache directory content), every run configuration x contig access sequence from every reached state; differential oracle (eager cache-free resolver) + independent VCF-text reader',
     'Runs = mode (eager/lazy/cache/cache+eager) x select_samples x ignore_conversions x phased x first operation x contig access sequence '
     'over {c1,c2,c3_random,absent}; sample selections None / {S1,S2} / {S1} / {S1,S3} with 70-character sample names of which two share a 57-character prefix; from every cache state reached (quick depth 2, 37 states; thorough depth 3, 477 '
     'states) all runs are executed (the read-level getAllele() is called before the lookups in half of them) and at every access all (position, base) lookups and has_location answers are compared; plus 288 '
     'Molecule.allele conformance cases.',
     'phased=False, missing genotypes and multi-base sites are only covered by the all-modes-agree comparison; region_start/region_end, prefetch and uglyMode are not generated.'),
    ('C06',
     'bounded-exhaustive enumeration of coordinate-ordered fragment words with known truth x class x UMI distance x radius x fragment cap x pooling on the real MoleculeIterator + write_tags; ground-truth partition oracle, flag/tag invariants, all input duplicate-flag patterns, second tagging pass',
     'All multisets of <=3 (thorough <=4) letters out of 15 (5 molecule keys: other strand, other cell, neighbouring site, far site; UMIs AAA/AAC/ACC/NAA; '
     'variants other R2 end / soft clip on either strand / sequencing error), every order among equal coordinates, x {NlaIII, CHIC r=0, CHIC r=2, plain} x distance 0/1/2 x '
     'cap None/1/2 x pooling 0/1 (full product). Oracle: soundness (one cell, one strand, site graph and UMI graph connected), exactness for '
     'distance 0 (with a fragment cap: first cap fragments together, the rest singletons, TF = true fragment count), pairwise-close UMIs never split, exactly one non-duplicate fragment per molecule for all 2^n input flag patterns, RC a ranking, '
     'af == size, TF >= af, and a second pass over the tagged reads changes no flag or tag.',
     'Truth is the simulator\'s (cell, site, strand, UMI); N in a UMI is treated as an uncalled base; invalid fragments belong to C05.'),
    ('C14',
     'bounded-exhaustive enumeration of reference windows x converted-position subsets x strand x TAPS strand convention x fragment shape on the real TAPS molecule classes with a real FastaFile; independent Bismark-style caller as oracle',
     'Every window (length <=6 quick / <=8 thorough) of a de-Bruijn reference of order 3 over ACGTN plus edge and soft-masked contigs, and molecules tiled in coordinate order over a 1 kb contig through one shared TAPS handler, x every '
     'subset of C/G positions converted x strand x taps_strand x fragment shape (single R1 safe/unsafe, overlapping, split, gapped, dove-tailed '
     'pairs, indel pair) x NlaIII/CHIC TAPS molecules: calls, XM strings and MC/uC/sZ/sz/sX/sx/sH/sh totals are compared with an independent caller.',
     'One fragment per molecule (voting belongs to C13); options inside methylation_consensus_kwargs are not explored; a lower-case call on a '
     'non-conversion substitution is accepted.'),
    ('C05',
     'bounded-exhaustive enumeration of contig layouts through the real job builder (stubbed contig listing, probe instead of task generation) and of BAM layouts x method x --no_rejects x single/--multiprocess through the real command-line entry point with a scheduler-owned Pool, every completion order of the jobs; multiset-conservation oracle',
     '(a) every layout word over small (5 kb) / small (60 kb, two of them exceed the 100 kb grouping threshold) / large contigs with reads of length 0..6 (thorough 0..8), with/without the unmapped bin: each contig with '
     'reads in exactly one job, the unmapped bin once. (b) every header layout of <=3 (thorough <=4) contigs (small/large, with/without reads) '
     'with/without unmapped pairs, holding proper, duplicate (sequenced on another lane), reverse, no-motif, half-mapped, split-contig and orphan fragments, and contigs that hold only a placed unmapped read; methods '
     'nla/chic/qflag; --no_rejects on/off; single vs --multiprocess under ScheduledPool with every completion order (<=24/120) for nla, '
     'identity+reverse otherwise. Oracle: multiset of (name, mate, seq, qual, pos, CIGAR) equals the input primaries, coordinate sorted, usable '
     '.bai, every record carries an RG declared in the header, --no_rejects removes exactly the invalid fragments; free-running real-Pool '
     'conformance runs; one 10 500-fragment input per mode so that the buffer-ejection branch runs inside the tagger; within a shard every layout replaces the BAM at the same input path.',
     'No secondary/supplementary alignments; reads are pre-tagged; samtools absent so the pysam merge/sort paths run; worker count is '
     'observable only through the completion order.'),
    ('C12',
     'schedule + configuration enumeration: every bins-per-job 1..N x bin size x max fragment size x key tags x every completion order of the pool jobs (scheduler-owned Pool) on the real generate_commands/obtain_counts/count_fragments_binned and get_binned_counts; direct-count oracle from the BAM records',
     'Tagged BAMs (3-4 contigs, 3 cells) with DS on every job boundary, +-1, at 0 and at the contig end, sites left/right of the read up to '
     'max_fragment_size, both strands, allele key tags, and every kind of record that must not be counted (duplicate, qc-fail, read 2, MAPQ below '
     'threshold, mp not unique); bin {50,100,250} x bins-per-job 1..N x max_fragment_size {20,100,1000} x key_tags {None,[DA]} x every '
     'completion order for <=5 (thorough <=6) jobs, orders within 2 (3) adjacent swaps + reversal for more; default-option calls; '
     'get_binned_counts x n_threads x orders; free-running real-Pool conformance runs in a subprocess; the BAM replaced at the same path between runs of one process; two libraries with disjoint cells in one call under every near-identity completion order.',
     '|DS - read span| <= max_fragment_size; sites outside the contig only judged for invariance; several BAMs sharing cells (dict.update merge) is outside the property.'),
    ('C20',
     'crash-point / fault enumeration: every injection point discovered by an instrumented fault-free run x {exception, kill, KeyboardInterrupt} x {single, --multiprocess} x {nla, chic}, each execution in a forked child (kill = os._exit at the point); status-vs-output oracle',
     'Both on a fresh output path and as a re-run over the finished output of an earlier successful run (stale status file). Points: input verification, arguments that fail in set-up, before/after every molecule write, before/after the read-group header rewrite (per job in multiprocess mode), before/inside/after every sort '
     '(inside = half-written output), before/after every index, every pool job, before/inside/after merge, temp-folder cleanup. Quick: every single fault; '
     'thorough: also every pair of consecutive points and all three sort retries failing. Oracle: the status file never says success unless the run '
     'returned normally, and whenever it says success the BAM exists, ends with the BGZF EOF block, is coordinate sorted, has a usable up-to-date '
     'index and holds every input record; the fault-free run must report success.',
     'Kills land at Python-level step boundaries and two modelled mid-write points; pool jobs run in-process (killing one OS worker of a real Pool hangs and is not explored).'),
    ('C08',
     'schedule + tiling enumeration: one serial run vs every (bin size, fetch margin, job size, pool on/off) tiling of the region API and vs --multiprocess, each under every completion order of the jobs (scheduler-owned Pool), on the real command-line entry point; record-multiset equality oracle',
     'A tiny genome (3 contigs; for the contig-per-process comparison also three 45-60 kb contigs and a large one) holding a molecule on, one before and one after every bin boundary that any tiling of the alphabet produces and on the first/last bases of every contig (taken from '
     'the real tiling function), both strands, 1-3 duplicates, two cells, rejects, half-mapped and unmapped pairs; bin sizes {250,700,1000,>contig} '
     '(thorough adds 500), fetch margins {60=longest fragment, 1000} (thorough adds 100), job sizes {b,3b,inf}, with and without a pool, plus a 20-base one-bin-per-job tiling of a dense input (> 100 result files), -max_fragment_size below the fragment lengths, and a history of -contig restricted and unrestricted tiled runs in one process; every '
     'completion order for <=4 (5) jobs, orders within 2 (3) adjacent swaps + reversal for more; methods nla and chic. Oracle: multiset of (name, mate, '
     'flag, position, CIGAR, sequence, all tags except mi/ix) equals the serial run.',
     'Fetch margin >= longest fragment; no blacklist; per-run identifiers and order among equal coordinates not compared.'),
]

# id -> reason it is currently not claimed
PENDING = {}

# Extensions of the audit wave (DESIGN.md section 15): id -> (text appended to the level text, replacement of the level note)
AUDIT = {
    'C01': ('Audit extension: the empty input; letters "read ends exactly behind barcode+UMI" and lower-case bases; phred 10 (+) and 31 (@); '
            'input-file forms (gzip, no final newline, "+name" separator lines, .fq.gz); several strategies selected at once (5 sets of 2-3 '
            'strategies, judged by the clauses both readings of the property share); demux.py over 31 option / file-name forms (-n at and around '
            'chunk and lane boundaries, two lanes, --se, --norejects, -hd 1, -use A,B, two libraries, -merge, --ignore, auto-detection) and the '
            'scheduler mode with an sbatch stand-in executing the generated lane and glue jobs; demultiplexing.log counters compared per block; '
            '-use A,A (one strategy named twice).',
            'Without a reject handle only the demultiplexed side and the counters are compared; with several strategies a pair may legitimately '
            'reach both sinks (once per strategy); mate files of unequal length, three-file libraries and mixed single/paired lanes are outside '
            '"well-formed" and not generated.'),
    'C02': ('Audit extension: 51 position-code variants so that every UMI / ligation / primer position sees every phred 0..51 and a walking N; '
            'the probe keyword (None/True) x content classes; single-end and 3-read input for every strategy; all 28x28 strategy chains on one '
            'record tuple; loader configurations (default at expansion 0 and 1, indexFileAlias=None, a user barcode directory that makes '
            'CHROMC16U12 and the DamID branch of DamID2andT_3u4b3u6b non-vacuous); the written FASTQ lines 2 and 4 equal the record.',
            'The layout table is a transcription of the class descriptions/TAGS.MD; rows backed only by code comments are marked weak and cannot '
            'alarm. MX/QT/eq tags, expansion 2 and constructor arguments no registered strategy uses are not checked.'),
    'C03': ('Audit extension: file level as a full product of 7 column layouts x gz x 5 lazyLoad forms x k x 8 accessor histories, each case with '
            'three live parsers (decoy directory with same-named files, parser under test, sibling with another k and spaceFill); file formats '
            '(no final newline, CRLF, trailing blank, repeated line, index 0, all-N whitelists); expansion histories on a fresh parser '
            '(every non-decreasing sequence of expand() calls x lookups between calls x constructor k x index type); the shipped index lists '
            'that mix barcode lengths and foreign entries, one whitelist per length class behind the real alias.',
            'Whitelists are sets of equal-length ACGTN strings; blank/comment lines, >2 columns (refused by the parser), shrinking re-expansion and '
            'barcodes added after an expansion are outside the domain.'),
    'C04': ('Audit extension: five loader configurations (default alias, none, two shipped index aliases with non-numeric identifiers, Hamming-1 '
            'barcodes so that raw != corrected barcode); header shapes 10-field, filter Y / control 18, already-demultiplexed k:v headers; each '
            'pair handed to the flagger as [R1,R2], [R1,None], [None,R2]; cell index 0; a refusal is accepted only when the name really exceeds '
            '254 characters; name-level clause (every k:v pair in the produced name comes back as written); Single Cell Discoveries names; names rendered the way the FASTQ '
            'writers do (str(record)) as well as by asFastq(); a first-pass quality tag carried through a second demultiplexing pass.',
            'MI/SM only demanded when the encoder produced the fields they derive from; qualities above the top letter saturate by design; dual '
            'indices with "+" and "/1" suffixed headers are outside the stated header-safe alphabet.'),
    'C05': ('Audit extension: -tagthreads 1..4; job builder up to 12 contigs and contig lengths 99 999 / 100 000; CIGARs with clips, indels and '
            'skips; QC-failed, duplicate-flagged, mate-unmapped, single-end, sparsely tagged, secondary/supplementary input records; input '
            'headers with @RG/@PG/@CO lines; input index fresh / missing / stale / .csi; relative paths with the default temp folder; '
            'read-group clauses under --no_rejects; a second tagging pass over a tagged BAM for every method pair.',
            'Reads are pre-tagged (SM/RX); the fate of secondary/supplementary records is not claimed; mate numbers are compared only on records '
            'carrying the paired flag; samtools absent so the pysam merge/sort paths run; options outside "default options" (-head, -contig, '
            '-blacklist, --consensus) belong to C08/C15/C20.'),
    'C06': ('Audit extension: per class a second alphabet (second contig at equal coordinates, single-end copies, rejected fragments with '
            'yield_invalid on/off, R2-only fragments, a UMI of another length, rS random-primer tag, CHIC sites at radius and radius+1, NlaIII '
            'with use_allele_tag and DA a/b/absent); stale RC/af/TF tags of an earlier run; af/TF/RC demanded on every record; a deep '
            'same-site slice (all sequences of 4-5 fragments over 4 UMIs) exercising the moving representative UMI; CHIC radius 0 on reads '
            'tagged before with radius 2; NlaIII with library_name and cells named run_plate_well.',
            'Truth is the simulator\'s (cell, contig, site, strand, UMI[, allele]); N in a UMI is treated as an uncalled base; mi (written by the '
            'tagger), RC=0 being the non-duplicate fragment and untagged-joins-tagged alleles are not judged.'),
    'C07': ('Audit extension: every option branch of MoleculeIterator under every schedule (yield_invalid, every_fragment_as_molecule, '
            'skip_contigs, min_mapping_qual, fragment cap with yield_overflow on/off, max_buffer_size at every limit, perform_qflag with a '
            'progress callback, second and abandoned iterations, tuple / 1-tuple / bare-segment input); the iterator reading a sorted indexed BAM '
            'itself (MatePairIterator, ReadIterator, fetch windows); every permutation of small multisets with check_eject_every=None.',
            'Fragments span < half the cache size; UMIs compared exactly; with ejection the input is sorted (the documentation requires it); '
            'allele clustering and the TAPS / feature classes share the same ejection code and are not generated.'),
    'C08': ('Virtual clock: -max_time_per_segment 60 under a clock that moves one hour between segments and is frozen inside one (3 bins per job, all bins in one job, contig-per-process). Audit extension: -tagthreads 1..8 under the owned scheduler and free-running real-Pool runs; methods qflag, nla_no_overhang, '
            'nla_taps, chic_taps, nla_transcriptome, scartrace with generated FASTA/GTF; libraries empty / unmapped-only / single molecule / '
            'odd fragments on every job boundary; a one-base mate at exactly the longest fragment distance (no margin slack); 13 further options; '
            'the ownership clause observed directly (every job file read, each read-1 DS inside that job\'s bins).',
            'Fetch margin >= longest fragment; no blacklist (the tiling refuses it, the CLI path needs bedtools); per-run identifiers and order '
            'among equal coordinates not compared; methods whose serial pass itself fails are labelled, not judged.'),
    'C09': ('Audit extension: NlaIII no_overhang mode on real indexed FASTA references and their reverse complements (exact / soft-masked / '
            'substituted / absent motif, gap -1..4, clip 0..4, sites at 50, 0, 2); R1-less fragments; far-end clips, hard clips, indels; cycle '
            'shifts -1/+2 with an either-oracle; DS/RS/RZ/qcfail of every read before and after write_tags, site_location, strand, match_hash; '
            'a dedup kind comparing all pairs of a fragment family with == in both orders and both orientations.',
            'BAM-level fetch is not covered; max_fragment_size and input-qcfail paths of is_valid are outside the property.'),
    'C10': ('Audit extension: split_double_BAM.main() on a synthesised BAM and probability matrix; genomic magnitudes (bins to 1e6, coordinates '
            'around 2^24, 248956422, 2^31-1); increments above the bin (refusal accepted, results compared); four bin tags incl. a string tag and '
            'reference_start; 11 option dimensions at distance <=1 (quick) / <=2 (thorough) incl. -contig, -head, --splitFeatures, -byValue, '
            'pickle / --bulk output; a bin longer than every contig (empty table); index level names must describe their level.',
            'Weights limited to single reads and mate halves; -featureTags with -bin (refused), delimiter-containing feature values, -bedfile and '
            'filters (C11) are not generated.'),
    'C11': ('Audit extension: a contig in no blacklist/BED file; reads touching intervals from outside and inside; secondary/supplementary '
            'records; empty XA; float by-value; (--splitFeatures, -featureDelimiter) as one dimension; tag / alias / attribute lookups of '
            'metaFromRead in joined and single form; joined + -bin; reads dealt over two alignment files; -head; tables written as csv / pickle / '
            'pickle.gz with and without --bulk read back from the file; --noNames; named two-level sample tags; the second of two '
            'alignment files lists its contigs in the opposite order; a soft clip behind the aligned part.',
            'The oracle follows the CLI help strings; undocumented interactions (split + by-value, by-value or bin + bed, NM missing, XA vs NH '
            'disagreement, -head with several files) are not judged.'),
    'C12': ('Sparse BAMs: sites in stretches no alignment overlaps (coverage gaps wider than a job), every job split. Audit extension: dedup=False, ignore_mp, min_mq None/0, two key tags, skip_contigs (7 forms), head, alt_spans, path lists, explicit '
            'count_function on BAMs with records lacking SM / DS, discordant pairs, MAPQ 255, two-reason records; library pairs sharing unnamed '
            '(bulk) records; get_binned_counts and get_binned_counts_prefixed without a filter function, with regions and aliases; the installed '
            'script in its own interpreter; read_counts as a complete truth table (144 records x 48 option sets); 1-4 workers with one bin per job; a first library without reads on a contig the second covers.',
            '|DS - read span| <= max_fragment_size; where the property is silent (head below the job count, alt_spans targets, records without '
            'DS, coordinate regions) only "never above / once per cell / invariant under the job split" is demanded.'),
    'C13': ('Audit extension: 28 option sets of get_consensus (dove_safe, min_phred_score at every quality boundary, only_include_refbase, '
            'with_probs_and_obs, explicit defaults, cycle and dove-distance filters judged by vote-over-one-fragment-molecules); histories asking '
            '7 option sets after every add_fragment with every ordered pair adjacent; wrappers get_consensus_base / _frequencies / _gc_ratio; '
            '12-fragment molecules; phred 1, 2, 41, 93; CIGAR features inside pairs; IUPAC codes; pick_best_base_call on all words of <=3 calls.',
            'Fragments have an R1 (R2-only fragments are skipped by the code); the position carrying an ambiguity code is left open; allow_N=True '
            'raises NotImplementedError (a refusal).'),
    'C14': ('Audit extension: all six TAPS molecule classes (TAPSMolecule, the two annotated classes and TAPSPTaggedMolecule on the short '
            'windows, pairs also under allow_unsafe_base_calls); contigs shorter than a context, mixed-case and IUPAC contigs, and a G on '
            'position 2 / a C on the third position from the end (first complete contexts); outward-facing, same-strand, spliced, clipped '
            'and indel shapes; a vote family (mate disagreement at three quality relations, 1-3 further fragments with splits, majorities, '
            'ties and N copies, min_phred_score at the boundaries) judged by an independent implementation of the consensus definition; '
            'a retag family (custom tag names, reads subsets); all clauses on every read of every fragment; molecules created empty and '
            'filled with add_fragment; dove_R1_distance / dove_R2_distance with a correspondingly shortened safe span.',
            'A lower-case call on a non-conversion substitution is accepted; the safe span of same-strand mates is undefined (permissive '
            'oracle); the MD-missing branch is unreachable (get_consensus swallows it first).'),
    'C16': ('Audit extension: every point under each optim variant (nb, optim, unoptimised fallback); strand-less features and names '
            'shared per strand; two live containers interleaved (class-level memo) in debug mode; coordinates + 3e9; reads with clips, '
            'indels, unknown contigs; molecule level with reverse reads, mate pairs, two fragments, methods 0/1, the constructor\'s own '
            'annotation, capture_locations on/off, observed through feature_locations, hits and exons/introns/genes; fragment-level '
            'annotation; a file level (each word written as GTF, four loadGTF argument sets, every prefetch(contig,lo,hi) clone inside its '
            'window, a second round through loadBED with 3/4/6/12 columns).',
            'Histories always sort() between additions and queries (the quantifier of the property); a strand-less feature under a stranded '
            'query, base end of a BED feature and deleted read bases are left open; findNearestFeature, inverted ranges and loaders '
            'refusing strand "." are not covered.'),
    'C15': ('Audit extension: fragments with an unmapped mate (R2 unmapped as a normal letter; R1 unmapped = strand-less molecule), class-rejected '
            'pairs (off-site, same-strand mates) through every API and the command line with yield_invalid as bamtagmultiome configures it, '
            'one-base deletions and soft clips, write_pysam with a consensus_read_callback, a soft-masked reference with an extra MD clause; '
            'placement on the contig (molecules covering coordinate 0 / the last base, all classes, APIs and the command line); a second '
            'alternative base with all insertion orders and a three-base oracle (dominating -> that base, identical evidence -> N); '
            'no-call letters and seven-fragment words (one call against six no-calls).',
            'CHIC molecules with assignment radius >0 are not generated; an N in a source read is no observation; "no record skips more than max_N_span" is taken from the parameter name; '
            'the strand flag and DS of strand-less / site-less molecules and TR with an unmapped R2 are not checked.'),
    'C17': ('Audit extension: blacklist=None, duplicated intervals, four-interval merges, every fragment size 0..R+1 at R=8; bp_chunked on every '
            'composition x bin/gap labelling x tuple arity 3/5/6 x one or two contigs; blacklisted_binning_contigs with BED files as every word '
            'over 8 records in 3-column / 6-column / space-separated / gzip form, lengths from pairs or a real BAM header, five whitelists, and '
            'each tiling fed through the real bp_chunked.',
            'Small-scope: coincidences needing coordinates beyond R or more than 2-4 blacklist intervals are not covered; the total_bins <= 0 '
            'branches are unreachable (merge output is sorted and disjoint, checked exhaustively).'),
    'C18': ('One sample name holds a blank. Audit extension: a seventh run letter (verbose, pickle round trip, region-bounded resolver, chrom restriction, unwritable cache '
            'directory, second ignore set) whose written caches are ordinary search state; a second initial state with .unfinished left-overs; '
            'haploid / triploid / four-allele / lower-case / * / duplicate-position records and unsorted contig order; contig-name patterns over '
            'all ordered configuration pairs; the DA tag of every read through MoleculeIterator and write_tags across 9 resolver steps.',
            'phased=False, missing genotypes and multi-base sites are only covered by the all-modes-agree comparison; outside a bounded '
            'resolver\'s window an answer may be missing but never wrong; uglyMode, sites-only and un-indexed VCFs are not generated.'),
    'C20': ('Torn intermediate file: the unsorted output of writer k silently loses its last data block and EOF block before the header rewrite. Audit extension: a fault before EVERY executed source line of the three pipeline modules (sys.settrace in the forked '
            'child; exceptions at first/last occurrence, kills one per distinct on-disk state, interrupts one per (state, stack); thorough: '
            'every occurrence); partial effects (truncated .bai, sort / merge dying after a valid empty BAM, status writes failing or left '
            'partial, every file-system call), an OSError kind, triple sort failures, pairs of faults; options (-head, --no_rejects, -contig, '
            '-skip_contig, --consensus, --no_source_reads), output-path letters, a one-file merge, a modelled samtools; re-runs over the '
            'output of a run on ANOTHER input with old mtimes; the cluster mode under the local scheduler with stand-in tools; a real Pool '
            'with raising / dying workers; every BGZF block of the input damaged, and an impossible record in front of every record of an '
            'unmapped tail; re-runs whose status file cannot be written, alone and followed by a fault at every later point; a MemoryError fault kind.',
            'Kills land at Python-level line boundaries and modelled mid-write points; a hung execution is killed after 60 s and judged like '
            'a kill; -head, --no_rejects and --no_source_reads outputs are judged on existence, EOF, order and index only; a read-only '
            'directory is represented by OSError at every file-system call (the checks run as root).'),
    'C19': ('Four non-canonical spellings of the output paths (relative, ./, //, ..) alone, under a descriptor budget and after both histories; the in-memory store resolves spellings like a file system. Audit extension: the third anchored writer bamSplitByTag.py (all words over a read alphabet x max_handles x head x {one call, the '
            'real __main__ loop via runpy}; pysam replaced by a counting pass-through, Pool by the owned scheduler; command lines in a fresh '
            'interpreter with the real Pool); FastqHandle(single_cell) single-end and without cell index; HandleLimiter forceAppend and an '
            'explicit close() before any write of the sequence.',
            'The OS is an in-memory store: only open() fails, and only as injected; after a legitimate raise the run stops; open failures of the '
            'BAM splitter (no recovery mechanism) and failing close() calls are outside the fault model.'),
}
