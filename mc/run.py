"""./check <ID> [--tier quick|thorough] [--replay file]"""
import argparse
import importlib
import os
import sys

from . import engine


def main():
    ap = argparse.ArgumentParser()
    ap.add_argument('property')
    ap.add_argument('--tier', default=os.environ.get('VERIF_TIER', 'quick'), choices=['quick', 'thorough'])
    ap.add_argument('--replay', default=None)
    a = ap.parse_args()
    try:
        seed = int(os.environ.get('VERIF_SEED', '0'))
    except ValueError:
        seed = 0
    pid = a.property.upper()
    mod = importlib.import_module('props.' + pid.lower())
    sys.exit(engine.run_property(mod, a.tier, seed, a.replay))


if __name__ == '__main__':
    main()
