"""C04 - read-name encoding round-trips: FASTQ header -> BAM tags restores every field.

Seam: strategy.demultiplex -> TaggedRecord.asFastq() header -> pysam.AlignedSegment named with it ->
QueryNameFlagger().digest([R1, R2]) -> tags; plus the two pure codec functions.
Space: every registered strategy x every phred character 33..126 at every quality-carrying header
position (UMI, ligation, RBSN barcode/enzyme qualities) x header shapes x index kinds x library names
over the header-safe alphabet, with every library length that moves the name across 240..260 chars.
Oracle: the inputs themselves (header fields, library, original qualities saturated at phred 51).
Input generation (position-coded reads, planted barcodes, strategy objects) is shared with props/c02.py.
"""
import os
import traceback

from mc import bind
from oracles import c02_layout as L
from oracles import c04_header as H
from props import c02 as G      # generator side only: loaders, whitelists, planted reads

ID = 'C04'
DESIGN_REF = 'DESIGN.md section 3, C04'
RULE = ('per registered strategy (accepted pair with a whitelisted barcode planted, reads of 60 nt): every phred char '
        '33..126 at every header-carried quality position; header shapes S1 (index sequence / integer index / '
        '1-mismatch index), S2, S3, 3-DEC x two coordinate sets x index-alias on/off x 4 library names; library '
        'lengths moving the name across the tier window around 254; a custom whitelist with string cell indices; '
        'pure codec: all 94 characters and all 94x94 pairs. A case is non-trivial when the name was decoded '
        '(or refused); states = distinct inputs')
ASSUMPTIONS = [
    'library names and cell indices over [A-Za-z0-9_-]; Illumina fields over the same alphabet',
    'the aligner keeps the read name (FASTQ header without "@") unchanged; a BAM stores at most 254 name characters',
    'the molecular identifier is only demanded when the encoder produced a corrected index (aA); without an index alias '
    'the tagger marks the read as bulk (BK) and no MI exists',
    'CHROMC16U12 accepts nothing in this snapshot (emptied 10x whitelist): vacuous, see counters',
]

_STB = {}       # config B (no index alias): shortName -> strategy
_USER = {}
_FN = {}
READ = 60


def setup():
    if _STB:
        return
    G.setup()
    import singlecellmultiomics
    from singlecellmultiomics.barcodeFileParser.barcodeFileParser import BarcodeParser
    from singlecellmultiomics.modularDemultiplexer.demultiplexingStrategyLoader import DemultiplexingStrategyLoader
    from singlecellmultiomics.modularDemultiplexer import baseDemultiplexMethods as B
    from singlecellmultiomics.universalBamTagger.universalBamTagger import QueryNameFlagger
    root = os.path.dirname(os.path.realpath(singlecellmultiomics.__file__))
    ip = BarcodeParser(barcodeDirectory=os.path.join(root, 'modularDemultiplexer/indices/'), hammingDistanceExpansion=1)
    bp = BarcodeParser(barcodeDirectory=os.path.join(root, 'modularDemultiplexer/barcodes/'),
                       hammingDistanceExpansion=0, lazyLoad=("10x_3M-february-2018",))
    dmx = DemultiplexingStrategyLoader(barcodeParser=bp, indexParser=ip, indexFileAlias=None)
    for s in dmx.demultiplexingStrategies:
        _STB[s.shortName] = s
    # a whitelist whose cell indices are strings / integers, on the plain "3bp UMI + 8bp barcode" layout
    ub = BarcodeParser(barcodeDirectory='/nonexistent-c04', hammingDistanceExpansion=0)
    for bc, idx in USER_BARCODES:
        ub.addBarcode('user_str', barcode=bc, index=idx)
    _USER['s'] = B.UmiBarcodeDemuxMethod(umiRead=0, umiStart=0, umiLength=3, barcodeRead=0, barcodeStart=3,
                                         barcodeLength=8, barcodeFileParser=ub, barcodeFileAlias='user_str',
                                         indexFileParser=ip, indexFileAlias='illumina_merged_ThruPlex48S_RP')
    _FN['enc'] = bind.seam(B, 'phredToFastqHeaderSafeQualities')
    _FN['dec'] = bind.seam(B, 'fastqHeaderSafeQualitiesToPhred')
    _FN['flagger'] = QueryNameFlagger
    _FN['NM'] = B.NonMultiplexable


USER_BARCODES = [('ACACACTA', 'A1'), ('GTGTGAGT', 'well-2_b'), ('TTGGCCAA', '007'), ('CAGTCAGT', 12)]
USER = '_USERSTR'


# ---------------------------------------------------------------------------------------------- space
def _strategies():
    return [s for s in L.ALL_SHORT]


def _inputs(short):
    """[(label, plant, single_end)] accepted inputs of the strategy: one per barcode source x 3 barcodes"""
    if short == USER:
        return [(f'user{j}', [[0, 3, bc]], False) for j, (bc, _) in enumerate(USER_BARCODES)]
    out = []
    se = G._se_mode(short) == 'only'
    src = G._sources(short)
    if not src:
        return [('bulk', [], False)]
    for label, alias, sg in src:
        for j, bc in enumerate(G._pick3(alias)):
            out.append((f'{label}{j}', G._base_plant(short) + G._plant_bc(bc, sg), se))
    return out


def _qual_positions(short):
    """(mate, position) of every base whose quality is written into the read name"""
    rows = {USER: ['MSPJIC8U3'], 'TCHIC': ['scCHIC384C8U3l'], 'CHICTV': ['scCHIC384C8U3l'],
            'DamAndT': ['DamID2', 'CS2C8U6'], 'DamID2andT_3u4b3u4b': ['_SCA_TX'], 'DamID2andT_3u4b3u6b': ['_SCA_TX'],
            'ILLU': []}.get(short, [short])
    pos = set()
    for r in rows:
        row = L.ROWS[r]
        sg = row['umi'] + row['lig']
        if r == 'RBSN':
            sg = sg + row['bc'] + row['extra']['ES']
        for m, s, e in sg:
            pos.update((m, i) for i in range(s, e))
    return sorted(pos)


def bounds(tier):
    return {'strategies': len(L.ALL_SHORT) + 1, 'phred_chars': '33..126', 'read_length': READ,
            'header_shapes': ['S1/index', 'S1/int-index', 'S1/1-mismatch-index', 'S2', 'S3', '3-DEC'],
            'index_alias': ['illumina_merged_ThruPlex48S_RP', None], 'coordinate_sets': sorted(H.VALUES),
            'name_length_window': [240, 260] if tier == 'quick' else [225, 280],
            'barcodes_per_source_phred_sweep': 1 if tier == 'quick' else 3,
            'codec': 'all 94 characters, all 8836 pairs'}


def shards(tier):
    out = [('codec', a) for a in range(0, 94, 6)]
    for short in _strategies() + [USER]:
        out.append(('phred', short))
        out.append(('shapes', short))
        out.append(('liblen', short))
    out.append(('session', 'forward'))
    out.append(('session', 'reverse'))
    out.append(('session', 'interleaved'))
    return out


LIBS = ['L', 'lib-1_A', H.library(64), 'Z9_-']
SHAPES = [('A', 'S1', 'ATCACG'), ('A', 'S1', '3'), ('A', 'S1', 'ATCACC'), ('A', 'S2', None), ('A', 'S3', None), ('A', 'DEC', None),
          ('B', 'S1', 'ATCACG'), ('B', 'S1', '3'), ('B', 'S2', None), ('B', 'S3', None), ('B', 'DEC', None)]


def _case(short, label, plant, se, cfg='A', shape='S1', index='ATCACG', vals='v1', lib='LIB', qmut=()):
    return {'s': short, 'in': label, 'plant': plant, 'se': se, 'cfg': cfg, 'shape': shape, 'index': index,
            'vals': vals, 'lib': lib, 'qmut': [list(x) for x in qmut]}


def _cases(shard, tier):
    kind, short = shard
    inputs = _inputs(short) if kind != 'codec' else []
    if kind == 'phred':
        use = inputs if tier == 'thorough' else [x for x in inputs if x[0].endswith('0')]
        for label, plant, se in use:
            for (m, p) in _qual_positions(short):
                for q in range(33, 127):
                    yield _case(short, label, plant, se, qmut=[(m, p, q)])
            if tier == 'thorough':
                # two saturating characters at once, first and last quality position
                qp = _qual_positions(short)
                if len(qp) >= 2:
                    for q1 in (33, 84, 85, 126):
                        for q2 in (33, 84, 85, 126):
                            yield _case(short, label, plant, se, qmut=[(qp[0][0], qp[0][1], q1), (qp[-1][0], qp[-1][1], q2)])
    elif kind == 'shapes':
        use = inputs if tier == 'thorough' else inputs[:1] + inputs[-1:]
        seen = set()
        for label, plant, se in use:
            if label in seen:
                continue
            seen.add(label)
            for cfg, shape, index in SHAPES:
                if short == USER and cfg == 'B':
                    continue
                for vals in sorted(H.VALUES):
                    for lib in LIBS:
                        yield _case(short, label, plant, se, cfg=cfg, shape=shape, index=index, vals=vals, lib=lib)
    elif kind == 'liblen':
        lo, hi = (240, 260) if tier == 'quick' else (225, 280)
        for label, plant, se in inputs[:1] + (inputs[-1:] if len(inputs) > 1 else []):
            for cfg in ('A', 'B'):
                if short == USER and cfg == 'B':
                    continue
                probe = _case(short, label, plant, se, cfg=cfg, lib='L')
                n1 = _name_length(probe)
                if n1 is None:
                    continue
                for target in range(lo, hi + 1):
                    n = target - n1 + 1
                    if n >= 1:
                        yield _case(short, label, plant, se, cfg=cfg, lib=H.library(n, offset=target))


# ---------------------------------------------------------------------------------------------- execution
def _site(tb):
    fr = traceback.extract_tb(tb)
    return fr[-1].name if fr else '?'


def _encode(case):
    """-> ('rejected'|'exception'|'ok', payload) ; payload for ok: (raw reads, records, [first FASTQ line or exception])"""
    from singlecellmultiomics.fastqProcessing.fastqIterator import FastqRecord
    short = case['s']
    strat = _USER['s'] if short == USER else (G._ST[0] if case['cfg'] == 'A' else _STB)[short]
    raw = L.build_reads(case['plant'], READ, READ)
    if case['se']:
        raw = raw[:1]
    raw = [list(r) for r in raw]
    for m, p, q in case['qmut']:
        if m < len(raw):
            s = raw[m][3]
            raw[m][3] = s[:p] + chr(q) + s[p + 1:]
    hexp = None
    for m in range(len(raw)):
        raw[m][0], hexp = H.header(case['shape'], H.VALUES[case['vals']], m + 1, case['index'])
    raw = [tuple(r) for r in raw]
    recs = [FastqRecord(*r) for r in raw]
    try:
        res = strat.demultiplex(recs, library=case['lib'])
    except _FN['NM']:
        return 'rejected', None
    except Exception as ex:      # noqa
        import sys
        site = _site(sys.exc_info()[2])
        # raised while the record is serialised (asFastq or any helper it calls), not necessarily in asFastq's own frame
        if isinstance(ex, ValueError) and 'asFastq' in [f.name for f in traceback.extract_tb(sys.exc_info()[2])]:
            return 'refused', None       # the bulk strategy serialises inside demultiplex: a loud refusal
        return 'exception', (f'encode:{site}:exception:{type(ex).__name__}', repr(ex))
    lines = []
    for r in res:
        if isinstance(r, str):
            lines.append(r.split('\n')[0])
        else:
            try:
                lines.append(r.asFastq().split('\n')[0])
            except ValueError as ex:
                lines.append(ex)
            except Exception as ex:      # noqa
                import sys
                return 'exception', (f'encode:{_site(sys.exc_info()[2])}:exception:{type(ex).__name__}', repr(ex))
    return 'ok', (raw, res, lines, hexp)


def _name_length(case):
    st, payload = _encode(case)
    if st != 'ok':
        return None
    line = payload[2][0]
    return len(line) - 1 if isinstance(line, str) else None


def _quality_expectations(short, raw):
    """tag -> original phred characters (before saturation), from the C02 layout oracle"""
    if short == 'ILLU':
        return {}
    if short == USER:
        exp = [L.expect_row(L.ROWS['MSPJIC8U3'], raw)]
    else:
        exp = L.expected(short, raw, G._wl, 0)
    if not exp:
        return {}
    q = dict(exp[0]['qtags'])
    if short == 'RBSN':
        q['QT'] = L.cut(raw, L.ROWS['RBSN']['bc'], 3)
        q['eq'] = L.cut(raw, L.ROWS['RBSN']['extra']['ES'], 3)
    return q


COPIED = ('BC', 'bc', 'bi', 'RX', 'MX', 'aA', 'aI', 'rS', 'lh', 'ES', 'IS', 'dt', 'tu', 'rx', 'RR')


def _run(case):
    """-> (status, [(signature, detail)])"""
    import pysam
    st, payload = _encode(case)
    if st in ('rejected', 'refused'):
        return st, []
    if st == 'exception':
        return 'encode-exception', [payload]
    raw, res, lines, hexp = payload
    short = case['s']
    viols = []
    refused = [x for x in lines if not isinstance(x, str)]
    if refused:
        if len(refused) != len(lines):
            viols.append(('asFastq:only-one-mate-refused', [str(x)[:80] for x in lines]))
        return 'refused', viols
    segs = []
    for i, line in enumerate(lines):
        name = line[1:]
        if not line.startswith('@') or any(c.isspace() for c in name) or name == '':
            return 'bad-name', [('asFastq:name-not-a-single-token', line)]
        if len(name) > H.MAX_QNAME:
            return 'unstorable', [('asFastq:name-longer-than-a-bam-can-store-not-refused', {'length': len(name), 'name': name})]
        a = pysam.AlignedSegment()
        a.query_name = name
        a.flag = (77 if i == 0 else 141) if len(lines) == 2 else 4
        segs.append(a)
    try:
        _FN['flagger']().digest(segs)
    except Exception as ex:      # noqa
        import sys
        return 'decode-exception', [(f'decode:{_site(sys.exc_info()[2])}:exception:{type(ex).__name__}', repr(ex))]
    qexp = _quality_expectations(short, raw)
    for i, a in enumerate(segs):
        got = dict(a.get_tags())
        enc = dict(res[i].tags) if not isinstance(res[i], str) else {}
        want = {}
        for tag, val in hexp.items():
            if tag != 'name':
                want[tag] = val
        want['LY'] = case['lib']
        for tag in COPIED:
            if tag in enc and enc[tag] is not None:
                want[tag] = str(enc[tag])
        if 'aa' in enc and 'aa' not in want:
            want['aa'] = str(enc['aa'])
        for tag, orig in qexp.items():
            if tag in enc or orig != '':
                want[tag] = H.saturate(orig)
        if 'bi' in enc:
            want['SM'] = f"{case['lib']}_{enc['bi']}"
        if enc.get('aA') is not None and 'BC' in enc:
            want['MI'] = str(enc['BC']) + str(enc.get('RX', '')) + str(enc['aA'])
        for tag, val in want.items():
            if tag not in got:
                if val == '':
                    continue
                viols.append((f'roundtrip:{tag}-lost', {'strategy': short, 'mate': i + 1, 'want': val}))
            elif str(got[tag]) != val:
                viols.append((f'roundtrip:{tag}-changed', {'strategy': short, 'mate': i + 1, 'got': got[tag], 'want': val,
                                                            'name': lines[i][:200]}))
        if 'name' in hexp and a.query_name != hexp['name']:
            viols.append(('roundtrip:illumina-read-name-changed', {'got': a.query_name, 'want': hexp['name']}))
    seen, out = set(), []
    for s, d in viols:
        if s not in seen:
            seen.add(s)
            out.append((s, d))
    return 'decoded', out


def _codec(case):
    enc, dec = _FN['enc'], _FN['dec']
    chars = ''.join(chr(c) for c in case['q'])
    try:
        e = enc(chars, method=3)
    except Exception as ex:      # noqa
        return [(f'encode:phredToFastqHeaderSafeQualities:exception:{type(ex).__name__}', repr(ex))]
    out = []
    if len(e) != len(chars) or any(c not in H.LETTERS for c in e):
        out.append(('codec:encoding-not-one-header-safe-letter-per-quality', e))
        return out
    if len(chars) == 2:
        try:
            parts = enc(chars[0]) + enc(chars[1])
        except Exception as ex:      # noqa
            return [(f'encode:phredToFastqHeaderSafeQualities:exception:{type(ex).__name__}', repr(ex))]
        if parts != e:
            out.append(('codec:encoding-not-per-character', [e, parts]))
    try:
        d = dec(e, method=3)
    except Exception as ex:      # noqa
        return [(f'decode:fastqHeaderSafeQualitiesToPhred:exception:{type(ex).__name__}', repr(ex))]
    if d != H.saturate(chars):
        out.append(('codec:decode-of-encode-differs-from-saturated-original', {'got': d, 'want': H.saturate(chars)}))
    return out


def _session_names():
    """one demultiplexed read name (pair) per strategy: a heterogeneous sequence as a merged BAM would hold"""
    out = []
    for short in _strategies() + [USER]:
        inputs = _inputs(short)
        if not inputs:
            continue
        label, plant, se = inputs[0]
        case = _case(short, label, plant, se)
        st, payload = _encode(case)
        if st != 'ok':
            continue
        lines = payload[2]
        if any(not isinstance(x, str) for x in lines):
            continue
        out.append((short, [l[1:] for l in lines]))
    return out


def _digest(flagger, names):
    import pysam
    segs = []
    for i, name in enumerate(names):
        a = pysam.AlignedSegment()
        a.query_name = name
        a.flag = (77 if i == 0 else 141) if len(names) == 2 else 4
        segs.append(a)
    flagger.digest(segs)
    return [(a.query_name, dict(a.get_tags())) for a in segs]


def run_session(order):
    """ONE QueryNameFlagger instance decodes reads of all strategies in sequence (as the tagger does on a merged BAM);
    every read must come out exactly as from a fresh flagger"""
    seq = _session_names()
    if order == 'reverse':
        seq = seq[::-1]
    elif order == 'interleaved':
        seq = seq[0::2] + seq[1::2]
    viols = {}
    try:
        shared = _FN['flagger']()
        for short, names in seq:
            fresh = _digest(_FN['flagger'](), names)
            got = _digest(shared, names)
            if got != fresh:
                diff = {}
                for (n1, t1), (n2, t2) in zip(fresh, got):
                    for k in sorted(set(t1) | set(t2)):
                        if t1.get(k) != t2.get(k):
                            diff[k] = (t1.get(k), t2.get(k))
                    if n1 != n2:
                        diff['query_name'] = (n1, n2)
                viols.setdefault('decode:one-flagger-many-reads:tags-differ-from-a-fresh-flagger',
                                 {'strategy': short, 'fresh_vs_shared': diff, 'order': order})
    except Exception as ex:      # noqa
        viols.setdefault(f'decode:one-flagger-many-reads:exception:{type(ex).__name__}', repr(ex))
    return [(s, d) for s, d in viols.items()], len(seq)


def run_shard(shard, tier, acc):
    if shard[0] == 'session':
        case = {'fn': 'session', 'order': shard[1]}
        viols, n = run_session(shard[1])
        acc.case(case, transitions=n, nontrivial=True, outcome=f'session:{shard[1]}:reads={n}')
        for sig, d in viols:
            acc.violation(sig, case, d)
        return
    setup()
    if shard[0] == 'codec':
        a = shard[1]
        c1s = range(33 + a, min(33 + a + 6, 127))
        for c1, c2 in [(c, None) for c in c1s] + [(c, d) for c in c1s for d in range(33, 127)]:
            case = {'fn': 'codec', 'q': [c1] if c2 is None else [c1, c2]}
            v = _codec(case)
            acc.case(case, transitions=2, nontrivial=True,
                     outcome='codec:' + ('saturating' if max(case['q']) > 33 + 51 else 'plain'))
            for sig, d in v:
                acc.violation(sig, case, d)
        return
    short = shard[1]
    n = 0
    for case in _cases(shard, tier):
        status, viols = _run(case)
        n += 1
        hi = any(q > 33 + 51 for _, _, q in case['qmut'])
        acc.case(case, transitions=3, nontrivial=status in ('decoded', 'refused'),
                 outcome=f"{shard[0]}:{case['cfg']}/{case['shape']}:{status}{':saturating' if hi else ''}")
        acc.count(f'{status}:{short}')
        for sig, d in viols:
            acc.violation(sig, case, d)
    if n == 0 and shard[0] == 'phred':
        acc.count(f'vacuous:{short}:no accepted input or no quality in the name')


def replay(case):
    if case.get('fn') == 'session':
        setup()
        return run_session(case['order'])[0]
    setup()
    if case.get('fn') == 'codec':
        return _codec(case)
    return _run(case)[1]
