"""C03 - barcode correction assigns the unique nearest whitelisted barcode or nothing.

Space (all complete below the bound):
 * in-memory whitelists over ACGTN: every whitelist (as a set) of the stated sizes for length L, every
   expansion k in 0..2, EVERY query string of length L;
 * file level: every column layout x plain/gz x every lazyLoad form x k x accessor/lookup history used before the first
   lookup for a 3-barcode file, with a sibling parser (other k, spaceFill=True) alive on the same directory and a decoy parser
   (third k) on another directory whose files have the same names but other content;
 * file formats: every column layout x line style (LF, no final newline, CRLF, trailing blank, repeated line) x plain/gz x
   whitelist (incl. one barcode, every barcode with N) x index set (incl. index 0) x eager/lazy x k;
 * expansion histories (fresh parser per case): every whitelist of the stated sizes x every non-decreasing sequence of
   expand() calls x constructor k x index type x optional expand() arguments x lookups between the calls or not;
 * shipped whitelists (real barcodes/ and indices/ directories, loaded by the real constructor):
   every query string over ACGTN of the whitelist length.
Oracle: brute-force nearest neighbour (numpy), written from the property statement.
"""
import gzip
import itertools
import os
import shutil
import tempfile

import numpy as np

ID = 'C03'
RULE = ('every whitelist (set of barcodes over ACGTN) up to the size bound x k in 0..2 x every query of that length, '
        'through BarcodeParser.addBarcode/expand/getIndexCorrectedBarcodeAndHammingDistance; file-level layouts x lazyLoad form x accessor/lookup history '
        'before the first lookup, answers of a sibling parser (other k, spaceFill=True) on the same directory, after a decoy parser (third k) on another '
        'directory with same-named files of other content; file formats: layout x line style x '
        'gz x whitelist x index set x load x k; expansion histories: whitelist x non-decreasing expand() sequence x constructor k x index type x '
        'expand arguments x intermediate lookups (checked after every expand against that call\'s k); '
        'shipped whitelists against all 5^L queries. A case (whitelist,k) is non-trivial when at least one query is a '
        'tie that must be refused and at least one is corrected at distance >=1; states = (whitelist,k) pairs, '
        'transitions = lookups')
ASSUMPTIONS = [
    'a whitelist is a set of equal-length barcodes over ACGTN (duplicate lines with different indices are not generated)',
    'cell indices in files are integers or names containing a character outside ACGTNX (as all shipped files)',
    'files hold one barcode per line in one or two whitespace separated columns; blank lines, comment lines and extra columns are not '
    'generated (the parser refuses or has no notion of them); a line may be repeated identically in two-column files',
    'an alias is expanded by a non-decreasing sequence of expand() calls; the expansion in force is the k of the last call '
    '(adding barcodes after an expansion and shrinking re-expansions are not generated: the property does not define them)',
]
ALPHA = 'ACGTN'


def bounds(tier):
    file_level = {'layouts': LAYOUTS, 'gz': [False, True], 'load': LOADS, 'k': [0, 1, 2], 'whitelists': [list(w) for w in FILE_WLS],
                  'history_before_first_lookup': PRES, 'sibling_parser': 'same directory, k+1 mod 3, spaceFill=True, same lazyLoad',
                  'decoy_parser': 'another directory with same-named files of other content, k+2 mod 3, built and loaded first (file_formats too)',
                  'combination': 'full product'}
    formats = {'layouts': LAYOUTS, 'line_styles': FMTS, 'gz': [False, True], 'whitelists': [list(w) for w in FMT_WLS],
               'index_sets': IDXSETS, 'load': ['eager', 'lazy_star'], 'k': [0, 1, 2] if tier != 'quick' else [1],
               'combination': 'full product (repeated line not for the one-column layout)'}
    hist = {'plans': [list(p) for p in PLANS], 'constructor_k': [0, 1, 2], 'index_types': IDXTYPES, 'expand_args': EXPAND_ARGS,
            'lookups_between_expands': [False, True], 'fresh_parser_per_case': True}
    if tier == 'quick':
        hist['whitelists'] = [{'L': 2, 'sizes': [1, 2], 'combination': 'plans x lookups-between x (constructor k | index type | expand arguments, each varied alone)'},
                              {'L': 2, 'sizes': [3], 'combination': 'plans 1-2 and 0-1-2 with lookups between, other dimensions at their first value'}]
        return {'in_memory': [{'L': 3, 'sizes': [1, 2, 3], 'reduction': 'none'},
                              {'L': 4, 'sizes': [1], 'reduction': 'none'}],
                'k': [0, 1, 2], 'file_level': file_level, 'file_formats': formats, 'expansion_histories': hist,
                'shipped': ['illumina_RP_indices (6 nt, 15625 queries)', 'DamID2_8bp k<=1 (390625 queries)']}
    hist['whitelists'] = [{'L': 2, 'sizes': [1, 2, 3], 'combination': 'full product'},
                          {'L': 3, 'sizes': [1, 2], 'combination': 'plans x lookups-between, other dimensions at their first value'}]
    return {'in_memory': [{'L': 3, 'sizes': [1, 2, 3], 'reduction': 'none'},
                          {'L': 4, 'sizes': [1, 2], 'reduction': 'none'},
                          {'L': 5, 'sizes': [1], 'reduction': 'none'}],
            'k': [0, 1, 2], 'file_level': file_level, 'file_formats': formats, 'expansion_histories': hist,
            'shipped': 'every shipped barcodes/ and indices/ list over ACGTN of length <= 8 (k<=1; k=2 for lists <=96), all 5^L queries; DamID2 (10 nt) k<=1 all 5^10 queries'}


_CACHE = {}


def all_strings(L):
    if L not in _CACHE:
        arr = np.array(list(itertools.product(range(5), repeat=L)), dtype=np.uint8)
        strs = [''.join(ALPHA[i] for i in row) for row in arr]
        _CACHE[L] = (arr, strs)
    return _CACHE[L]


def encode(strs):
    lut = {c: i for i, c in enumerate(ALPHA)}
    return np.array([[lut[c] for c in s] for s in strs], dtype=np.uint8)


def oracle(wl_arr, q_arr, k):
    """for every query: (assigned?, index of nearest whitelist row, distance)"""
    n = q_arr.shape[0]
    best = np.zeros(n, dtype=np.int64)
    dist = np.zeros(n, dtype=np.int64)
    ties = np.zeros(n, dtype=bool)
    step = max(1, 4_000_000 // max(1, wl_arr.shape[0] * wl_arr.shape[1]))
    for s in range(0, n, step):
        d = (q_arr[s:s + step, None, :] != wl_arr[None, :, :]).sum(-1)
        mn = d.min(1)
        best[s:s + step] = d.argmin(1)
        dist[s:s + step] = mn
        ties[s:s + step] = (d == mn[:, None]).sum(1) > 1
    assigned = (dist <= k) & ~ties
    return assigned, best, dist, ties


_PARSER = None
_EMPTY = None


def _parser():
    global _PARSER, _EMPTY
    if _PARSER is None:
        from singlecellmultiomics.barcodeFileParser.barcodeFileParser import BarcodeParser
        _EMPTY = tempfile.mkdtemp(prefix='c03_empty_', dir='/dev/shm')
        _PARSER = BarcodeParser(barcodeDirectory=_EMPTY)
        try:
            os.rmdir(_EMPTY)
        except OSError:
            pass
    return _PARSER


def check_whitelist(wl, k, indices=None, q=None):
    """wl: tuple of barcode strings. Returns (violations, stats)."""
    bp = _parser()
    alias = 'w'
    bp.barcodes.clear()
    bp.extendedBarcodes.clear()
    if indices is None:
        indices = list(range(1, len(wl) + 1))
    try:
        for b, ix in zip(wl, indices):
            bp.addBarcode(alias, barcode=b, index=ix)
        if k > 0:
            bp.expand(k, alias=alias)
    except Exception as ex:
        return [(f'expand:exception:{type(ex).__name__}', repr(ex))], (0, 0, 0)
    L = len(wl[0])
    q_arr, q_strs = all_strings(L)
    return compare(lambda s: bp.getIndexCorrectedBarcodeAndHammingDistance(s, alias), wl, indices, k, q_arr, q_strs)


def compare(lookup, wl, indices, k, q_arr, q_strs, site='lookup'):
    wl_arr = encode(wl)
    assigned, best, dist, ties = oracle(wl_arr, q_arr, k)
    viols = {}
    n_corr = 0
    n_tie = 0
    for i, s in enumerate(q_strs):
        try:
            got = lookup(s)
        except Exception as ex:
            viols.setdefault(f'{site}:exception:{type(ex).__name__}', (s, repr(ex)))
            continue
        if assigned[i]:
            b = best[i]
            want = (indices[b], wl[b], int(dist[i]))
            if dist[i] > 0:
                n_corr += 1
            if got is None or tuple(got) != want:
                if got is None or got[0] is None:
                    sig = f'{site}:unique-nearest-within-k-not-assigned'
                elif dist[i] == 0:
                    sig = f'{site}:exact-member-not-mapped-to-itself'
                elif got[1] != want[1]:
                    sig = f'{site}:assigned-to-a-barcode-that-is-not-the-nearest'
                else:
                    sig = f'{site}:wrong-index-or-distance-reported'
                viols.setdefault(sig, (s, {'got': got, 'want': want}))
        else:
            if ties[i] and dist[i] <= k:
                n_tie += 1
            if got is not None and tuple(got) != (None, None, None):
                sig = (f'{site}:tie-between-two-whitelist-entries-was-assigned' if (ties[i] and dist[i] <= k)
                       else f'{site}:assigned-beyond-distance-k')
                viols.setdefault(sig, (s, {'got': got, 'nearest_distance': int(dist[i]), 'tie': bool(ties[i])}))
    out = [(sig, {'query': q, 'info': d}) for sig, (q, d) in viols.items()]
    return out, (len(q_strs), n_corr, n_tie)


# ------------------------------------------------------------------ file level
# column layouts; the shipped lists use idx_tab_bc, idx_space_bc, onecol, name_tab_bc and bc_space_name
LAYOUTS = ['bc_tab_idx', 'idx_tab_bc', 'idx_space_bc', 'onecol', 'name_tab_bc', 'bc_space_idx', 'bc_space_name']
# forms of the lazyLoad argument (demux.py passes a tuple naming another alias)
LOADS = ['eager', 'lazy_star', 'lazy_alias', 'lazy_tuple', 'lazy_other']
# histories: other public accessors / lookups used before the first lookup of the alias
PRES = ['none', 'getitem', 'getitem-other-alias', 'targetcount', 'list', 'mapping', 'lookups-other-alias',
        'unknown-alias-and-other-length-queries']
FILE_WLS = [('ACG', 'ACT', 'GGN'), ('AAA', 'CCC', 'TTT'), ('NAC', 'AAC', 'GTA')]
# line styles: LF; last line without newline (shipped celseq2.bc, nla_bisulfite.bc); CRLF; a blank after every line; first line repeated
FMTS = ['lf', 'nofinal', 'crlf', 'trail', 'dup']
DECOY_ROWS = [(91, 'CAT'), (92, 'TTG'), (93, 'GAC'), (94, 'ACG')]
FMT_WLS = FILE_WLS + [('NCA',), ('NAC', 'ANC', 'GTN'), ('AAA', 'AAC', 'CCG', 'TTN', 'GNG')]
IDXSETS = [[7, 3, 12, 1, 40], [0, 10, 2, 5, 1]]


def _lazy_arg(load):
    return {'eager': None, 'lazy_star': '*', 'lazy_alias': ['mylist'], 'lazy_tuple': ('mylist', 'aaa_twin'),
            'lazy_other': ('other', '10x_3M-february-2018')}[load]


def file_cases():
    for layout in LAYOUTS:
        for gz in (False, True):
            for lazy in LOADS:
                for k in (0, 1, 2):
                    for wl in FILE_WLS:
                        for pre in PRES:
                            yield {'kind': 'file', 'layout': layout, 'gz': gz, 'load': lazy, 'k': k, 'wl': list(wl), 'pre': pre}


def fmt_cases(tier):
    for layout in LAYOUTS:
        for gz in (False, True):
            for fmt in FMTS:
                if fmt == 'dup' and layout == 'onecol':
                    continue    # a repeated barcode gets two line numbers: not a whitelist in the sense of the property
                for wl in FMT_WLS:
                    for idxset in range(len(IDXSETS)):
                        for lazy in ('eager', 'lazy_star'):
                            for k in ((1,) if tier == 'quick' else (0, 1, 2)):
                                yield {'kind': 'file', 'family': 'fmt', 'layout': layout, 'gz': gz, 'load': lazy, 'k': k,
                                       'wl': list(wl), 'pre': 'none', 'fmt': fmt, 'idxset': idxset}


def _write_list(path, layout, wl, idx, fmt, gz):
    """write one whitelist file; returns the cell indices the property expects for wl"""
    lines = []
    for b, i in zip(wl, idx):
        if layout == 'bc_tab_idx':
            lines.append(f'{b}\t{i}')
        elif layout == 'idx_tab_bc':
            lines.append(f'{i}\t{b}')
        elif layout == 'idx_space_bc':
            lines.append(f'{i} {b}')
        elif layout == 'bc_space_idx':
            lines.append(f'{b} {i}')
        elif layout == 'name_tab_bc':
            lines.append(f'cell_{i}\t{b}')
        elif layout == 'bc_space_name':
            lines.append(f'{b} cell_{i}')
        elif layout == 'onecol':
            lines.append(b)
        else:
            raise ValueError(layout)
    if layout == 'onecol':
        want_idx = list(range(1, len(wl) + 1))
    elif layout in ('name_tab_bc', 'bc_space_name'):
        want_idx = [f'cell_{i}' for i in idx]
    else:
        want_idx = list(idx)
    if fmt == 'dup':
        lines.append(lines[0])
    if fmt == 'trail':
        lines = [ln + ' ' for ln in lines]
    nl = '\r\n' if fmt == 'crlf' else '\n'
    data = nl.join(lines) + ('' if fmt == 'nofinal' else nl)
    # written as bytes: no newline translation by the harness
    if gz:
        with gzip.open(path, 'wb') as f:
            f.write(data.encode())
    else:
        with open(path, 'wb') as f:
            f.write(data.encode())
    return want_idx


def _pre_step(bp, pre, wl, want_idx, layout):
    """one history step before the first lookup on alias mylist; returns a violation list"""
    if pre == 'getitem':
        mapping = bp['mylist']
        if mapping is None or dict(mapping) != dict(zip(wl, want_idx)):
            return [(f'file:{layout}:getitem-mapping-differs-from-file', {'got': None if mapping is None else dict(mapping)})]
    elif pre == 'getitem-other-alias':
        bp['other']
    elif pre == 'targetcount':
        bp.getTargetCount('mylist')
    elif pre == 'list':
        import contextlib
        import io
        with contextlib.redirect_stdout(io.StringIO()):
            bp.list()
            bp.list(showBarcodes=None)
    elif pre == 'mapping':
        bp.getBarcodeMapping()['mylist']
        bp.getBarcodeMapping().get('aaa_twin')
    elif pre == 'lookups-other-alias':
        # every string on ANOTHER alias first (most are misses there): nothing learnt there may be used for mylist
        for s in all_strings(3)[1]:
            bp.getIndexCorrectedBarcodeAndHammingDistance(s, 'other')
    elif pre == 'unknown-alias-and-other-length-queries':
        bp.getIndexCorrectedBarcodeAndHammingDistance(wl[0], 'nosuchalias')
        bp['nosuchalias']
        bp.getTargetCount('nosuchalias')
        # observed strings that are not of the whitelist length: their answer is not defined by the property and not checked;
        # they only precede the checked lookups
        for s in ('', wl[0][:-1], wl[0] + 'A', wl[0] + wl[0]):
            bp.getIndexCorrectedBarcodeAndHammingDistance(s, 'mylist')
    elif pre != 'none':
        raise ValueError(pre)
    return []


def check_file(case):
    from singlecellmultiomics.barcodeFileParser.barcodeFileParser import BarcodeParser
    wl = tuple(case['wl'])
    layout = case['layout']
    fmt = case.get('fmt', 'lf')
    family = case.get('family', 'file')
    top = d = tempfile.mkdtemp(prefix='c03_', dir='/dev/shm')
    try:
        k = case['k']
        lazy = _lazy_arg(case['load'])
        # a decoy parser on ANOTHER directory whose files have the same names but other content (as the shipped
        # barcodes/illumina_RP_indices.bc and indices/illumina_RP_indices.bc), third expansion value, built and loaded first:
        # nothing of it may show up in the parsers below
        dd = os.path.join(d, 'decoy')
        os.mkdir(dd)
        for fn, rows in (('mylist.bc', DECOY_ROWS), ('aaa_twin.bc', DECOY_ROWS[::-1]), ('other.bc', DECOY_ROWS[:1])):
            with open(os.path.join(dd, fn), 'w') as f:
                for ix, b in rows:
                    f.write(f'{ix}\t{b}\n')
        try:
            decoy = BarcodeParser(barcodeDirectory=dd, hammingDistanceExpansion=(k + 2) % 3, lazyLoad=lazy)
            for alias in ('mylist', 'aaa_twin', 'other'):
                decoy.getIndexCorrectedBarcodeAndHammingDistance('CAT', alias)
        except Exception as ex:
            return [(f'{family}:decoy-parser:exception:{type(ex).__name__}', repr(ex))], (0, 0, 0)
        d = os.path.join(d, 'lists')
        os.mkdir(d)
        idx = ([7, 3, 12] if 'idxset' not in case else IDXSETS[case['idxset']])[:len(wl)]
        name = 'mylist.bc' + ('.gz' if case['gz'] else '')
        want_idx = _write_list(os.path.join(d, name), layout, wl, idx, fmt, case['gz'])
        # a second, unrelated alias in the same directory: answers must not leak between aliases
        with open(os.path.join(d, 'other.bc'), 'w') as f:
            f.write('1\tTTT\n2\tGGG\n')
        # a third alias with the SAME barcode set, other cell indices, other order: nothing may be shared between aliases
        twin_idx = [f'well{j}' for j in range(len(wl))]
        with open(os.path.join(d, 'aaa_twin.bc'), 'w') as f:
            for b, ix in zip(reversed(wl), twin_idx):
                f.write(f'{ix}\t{b}\n')
        twin_wl = tuple(reversed(wl))
        k2 = (k + 1) % 3
        try:
            bp = BarcodeParser(barcodeDirectory=d, hammingDistanceExpansion=k, lazyLoad=lazy)
            # a sibling parser on the SAME directory with another expansion and the unused spaceFill option set: two parser
            # objects alive in one process must not share anything
            sib = BarcodeParser(barcodeDirectory=d, hammingDistanceExpansion=k2, lazyLoad=lazy, spaceFill=True) if family == 'file' else None
        except Exception as ex:
            return [(f'{family}:{layout}:constructor-exception:{type(ex).__name__}', repr(ex))], (0, 0, 0)
        pre = case.get('pre', 'none')
        try:
            v0 = _pre_step(bp, pre, wl, want_idx, layout)
            if v0:
                return v0, (0, 0, 0)
        except Exception as ex:
            return [(f'file:{layout}:accessor-exception:{type(ex).__name__}', repr(ex))], (0, 0, 0)
        q_arr, q_strs = all_strings(3)
        # signatures name the configuration class: the layout for plain files and first lookups, else the line style / the history step
        if family == 'fmt':
            site = f'fmt:{layout}' if fmt == 'lf' else f'fmt:{fmt}'
        else:
            site = f'file:{layout}' if pre == 'none' else f'file:after-{pre}'
        v1, st1 = compare(lambda s: bp.getIndexCorrectedBarcodeAndHammingDistance(s, 'mylist'), wl, want_idx, k,
                          q_arr, q_strs, site=site)
        v2, st2 = compare(lambda s: bp.getIndexCorrectedBarcodeAndHammingDistance(s, 'aaa_twin'), twin_wl, twin_idx, k,
                          q_arr, q_strs, site=f'{family}:{layout}:twin-alias-with-same-barcodes')
        nq = st1[0] + st2[0]
        if family == 'fmt':
            return v1 + v2, (nq, st1[1], st1[2])
        v3, _ = compare(lambda s: bp.getIndexCorrectedBarcodeAndHammingDistance(s, 'mylist'), wl, want_idx, k,
                        q_arr, q_strs, site=f'file:{layout}:after-twin-lookups')
        v4, st4 = compare(lambda s: sib.getIndexCorrectedBarcodeAndHammingDistance(s, 'mylist'), wl, want_idx, k2,
                          q_arr, q_strs, site=f'file:{layout}:sibling-parser-other-k-spaceFill')
        v6, _ = compare(lambda s: bp.getIndexCorrectedBarcodeAndHammingDistance(s, 'mylist'), wl, want_idx, k,
                        q_arr, q_strs, site=f'file:{layout}:after-sibling-lookups')
        return v1 + v2 + v3 + v4 + v6, (nq + st1[0] + st4[0] + st1[0], st1[1], st1[2])
    finally:
        shutil.rmtree(top, ignore_errors=True)


# ------------------------------------------------------------------ expansion histories (fresh parser per case)
# every non-decreasing sequence of expand() distances of length <= 2, the full ladder, and no call at all
PLANS = [(), (0,), (1,), (2,), (0, 0), (1, 1), (2, 2), (0, 1), (0, 2), (1, 2), (0, 1, 2)]
IDXTYPES = ['int-from-1', 'int-from-0', 'str-from-0']     # demux.py --si registers str(0), str(1), ...
EXPAND_ARGS = ['default', 'reportCollisions=False,spaceFill=True']


def hist_cases(wl, mode):
    """mode 'full': plan x lookups-between x constructor k x index type x expand arguments;
    'star': plan x lookups-between x (constructor k, index type, expand arguments: each varied alone, the others at their first value);
    'plans': plan x lookups-between; 'ladders': the two strictly increasing plans that end at 2, with lookups between"""
    for plan in PLANS:
        if mode == 'ladders' and plan not in ((1, 2), (0, 1, 2)):
            continue
        for probe in ((True,) if mode == 'ladders' else (False, True) if len(plan) > 1 else (False,)):
            for ctor_k in ((0, 1, 2) if (mode in ('full', 'star') and plan) else (0,)):
                for idxtype in (IDXTYPES if mode in ('full', 'star') else IDXTYPES[:1]):
                    for args in (EXPAND_ARGS if (mode in ('full', 'star') and plan) else EXPAND_ARGS[:1]):
                        if mode == 'star' and (ctor_k != 0) + (idxtype != IDXTYPES[0]) + (args != EXPAND_ARGS[0]) > 1:
                            continue
                        yield {'kind': 'hist', 'wl': list(wl), 'plan': list(plan), 'probe': probe, 'ctor_k': ctor_k,
                               'idx': idxtype, 'args': args}


def check_hist(case):
    from singlecellmultiomics.barcodeFileParser.barcodeFileParser import BarcodeParser
    wl = tuple(case['wl'])
    plan = case['plan']
    n = len(wl)
    indices = {'int-from-1': list(range(1, n + 1)), 'int-from-0': list(range(n)), 'str-from-0': [str(i) for i in range(n)]}[case['idx']]
    kwargs = {} if case['args'] == 'default' else {'reportCollisions': False, 'spaceFill': True}
    q_arr, q_strs = all_strings(len(wl[0]))
    viols = []
    stats = [0, 0, 0]

    def probe(bp, k, site):
        v, st = compare(lambda s: bp.getIndexCorrectedBarcodeAndHammingDistance(s, 'user'), wl, indices, k, q_arr, q_strs, site=site)
        viols.extend(v)
        stats[0] += st[0]
        stats[1] = max(stats[1], st[1])
        stats[2] = max(stats[2], st[2])
    try:
        bp = BarcodeParser(barcodeDirectory=_empty_dir(), hammingDistanceExpansion=case['ctor_k'])
        for b, ix in zip(wl, indices):
            bp.addBarcode(index=ix, barcodeFileAlias='user', barcode=b, hammingDistance=0, originBarcode=None)
        for j, k in enumerate(plan):
            bp.expand(k, alias='user', **kwargs)
            if case['probe'] and j < len(plan) - 1:
                probe(bp, k, 'hist:between-expands')
    except Exception as ex:
        return [(f'hist:expand:exception:{type(ex).__name__}', repr(ex))], (0, 0, 0)
    site = 'hist:' + ('never-expanded' if not plan else 'expanded-once' if len(plan) == 1 else
                      'expanded-again-same-k' if len(set(plan)) == 1 else 'expanded-again-larger-k')
    if case['ctor_k'] and plan and case['ctor_k'] != plan[-1]:
        site += ':constructor-k-differs'
    probe(bp, plan[-1] if plan else 0, site)
    return viols, tuple(stats)


def _empty_dir():
    """a directory name that does not exist: the constructor finds no files (as BarcodeParser() in demux.py --si)"""
    return '/dev/shm/c03_no_such_parent/no_such_dir'


# ------------------------------------------------------------------ shipped lists
def shipped_lists():
    """(directory, alias, path, barcodes, indices) for shipped lists over ACGTN, parsed independently."""
    import singlecellmultiomics.modularDemultiplexer as md
    base = os.path.dirname(md.__file__)
    out = []
    for sub in ('barcodes', 'indices'):
        for fn in sorted(os.listdir(os.path.join(base, sub))):
            p = os.path.join(base, sub, fn)
            op = gzip.open if fn.endswith('.gz') else open
            rows = []
            with op(p, 'rt') as f:
                for i, line in enumerate(f):
                    parts = line.split()
                    if not parts:
                        continue
                    if len(parts) == 1:
                        rows.append((parts[0], i + 1))
                    elif len(parts) == 2:
                        a, b = parts
                        if set(a) <= set('ACGTN') and not set(b) <= set('ACGTN'):
                            bc, ix = a, b
                        else:
                            ix, bc = a, b
                        rows.append((bc, int(ix) if ix.isdigit() else ix))
            if not rows:
                continue
            if len({bc for bc, _ in rows}) != len(rows):
                continue
            n_rows = len(rows)
            # entries outside ACGTN (XXXXXX placeholders, dual indices written A+B) stay in the parser but can never be the
            # correction of a query over ACGTN (every variant within k < L still holds a foreign symbol): they are not queried
            rows = [(bc, ix) for bc, ix in rows if set(bc) <= set(ALPHA)]
            if not rows:
                continue
            alias = fn.replace('.gz', '').replace('.bc', '')
            alias = os.path.splitext(os.path.basename(p))[0].replace('.gz', '').replace('.bc', '')
            lengths = sorted({len(bc) for bc, _ in rows})
            if len(lengths) == 1 and len(rows) == n_rows:
                out.append((sub, alias, [bc for bc, _ in rows], [ix for _, ix in rows]))
            else:
                # a shipped list holding barcodes of several lengths (the merged index lists): a query can only be corrected
                # to a barcode of its own length, so each length class is a whitelist of its own behind the same alias
                for L in lengths:
                    sel = [(bc, ix) for bc, ix in rows if len(bc) == L]
                    out.append((sub, f'{alias}@{L}', [bc for bc, _ in sel], [ix for _, ix in sel]))
    return out


_SHIPPED_PARSERS = {}


def check_shipped(case):
    from singlecellmultiomics.barcodeFileParser.barcodeFileParser import BarcodeParser
    sub, alias, k, lo, hi = case['dir'], case['alias'], case['k'], case['lo'], case['hi']
    key = (sub, alias, k) if not case.get('eager_dir') else (sub, '*eager*', k)
    if key not in _SHIPPED_PARSERS and case.get('eager_dir'):
        _SHIPPED_PARSERS.clear()
        import singlecellmultiomics.modularDemultiplexer as md
        # the way demux.py builds its index parser: EVERY list of the directory loaded and expanded in one parser
        _SHIPPED_PARSERS[key] = BarcodeParser(barcodeDirectory=os.path.join(os.path.dirname(md.__file__), sub),
                                              hammingDistanceExpansion=k)
    if key not in _SHIPPED_PARSERS:
        _SHIPPED_PARSERS.clear()
        # the real constructor on the real directory; every other alias stays pending (lazy)
        import singlecellmultiomics.modularDemultiplexer as md
        _SHIPPED_PARSERS[key] = BarcodeParser(barcodeDirectory=os.path.join(os.path.dirname(md.__file__), sub),
                                              hammingDistanceExpansion=k, lazyLoad='*')
    bp = _SHIPPED_PARSERS[key]
    entry = [e for e in shipped_lists() if e[0] == sub and e[1] == alias]
    if not entry:
        from mc.bind import HarnessError
        raise HarnessError(f'shipped list {sub}/{alias} not found')
    _, _, wl, idx = entry[0]
    L = len(wl[0])
    # queries lo..hi in base-5 order
    n = hi - lo
    nums = np.arange(lo, hi, dtype=np.int64)
    q_arr = np.zeros((n, L), dtype=np.uint8)
    for p in range(L - 1, -1, -1):
        q_arr[:, p] = nums % 5
        nums //= 5
    lut = np.array(list(ALPHA))
    q_strs = [''.join(r) for r in lut[q_arr]]
    real_alias = alias.split('@')[0]
    return compare(lambda s: bp.getIndexCorrectedBarcodeAndHammingDistance(s, real_alias), tuple(wl), idx, k, q_arr, q_strs,
                   site='shipped' + (':whole-directory-parser' if case.get('eager_dir') else ''))


# ------------------------------------------------------------------ engine interface
def _sorted_strings(L):
    _, strs = all_strings(L)
    return [s for s in strs if list(s) == sorted(s, key=ALPHA.index)]


def shards(tier):
    out = []
    b = bounds(tier)
    for spec in b['in_memory']:
        L = spec['L']
        n = 5 ** L
        for size in spec['sizes']:
            if size == 1:
                out.append(('mem', L, 1, None, False))
            else:
                for first in range(n - size + 1):
                    out.append(('mem', L, size, first, False))
    for li in range(len(LAYOUTS)):
        for gz in (False, True):
            out.append(('file', li, gz))
            out.append(('fmt', li, gz))
    # expansion histories: (L, size, full product of the minor dimensions?)
    hist = ([(2, 1, 'star'), (2, 2, 'star'), (2, 3, 'ladders')] if tier == 'quick' else
            [(2, 1, 'full'), (2, 2, 'full'), (2, 3, 'full'), (3, 1, 'plans'), (3, 2, 'plans')])
    for L, size, full in hist:
        if size == 1:
            out.append(('hist', L, 1, None, full))
        else:
            for first in range(5 ** L - size + 1):
                out.append(('hist', L, size, first, full))
    # one parser holding the whole indices/ directory (k=1, as the command line default): one shard, aliases in sequence
    out.append(('shipped-eager', 'indices', 1))
    if tier == 'quick':
        out.append(('shipped', 'barcodes', 'illumina_RP_indices', 0, 0, 5 ** 6))
        out.append(('shipped', 'barcodes', 'illumina_RP_indices', 1, 0, 5 ** 6))
        out.append(('shipped', 'barcodes', 'illumina_RP_indices', 2, 0, 5 ** 6))
        for k in (0, 1):
            for lo in range(0, 5 ** 8, 5 ** 7):
                out.append(('shipped', 'barcodes', 'DamID2_8bp', k, lo, lo + 5 ** 7))
    else:
        for sub, alias, wl, idx in shipped_lists():
            L = len(wl[0])
            if L > 8 and alias != 'DamID2':
                continue
            ks = [0, 1] + ([2] if len(wl) <= 96 and L <= 8 else [])
            chunk = 5 ** min(L, 7)
            for k in ks:
                for lo in range(0, 5 ** L, chunk):
                    out.append(('shipped', sub, alias, k, lo, min(5 ** L, lo + chunk)))
    return out


def run_shard(shard, tier, acc):
    kind = shard[0]
    if kind == 'mem':
        _, L, size, first, reduced = shard
        _, strs = all_strings(L)
        if size == 1:
            wls = [(s,) for s in strs]
        else:
            wls = [(strs[first],) + c for c in itertools.combinations(strs[first + 1:], size - 1)]
        for wl in wls:
            for k in (0, 1, 2):
                viols, (nq, ncorr, ntie) = check_whitelist(wl, k)
                case = {'kind': 'mem', 'wl': list(wl), 'k': k}
                acc.case(case, transitions=nq, nontrivial=(ncorr > 0 and ntie > 0),
                         outcome=f'k={k},corrected={min(ncorr, 3)},ties={min(ntie, 3)}')
                for sig, d in viols:
                    acc.violation(sig, case, d)
        if not wls:
            acc.count('empty_shards')
    elif kind == 'file':
        for case in file_cases():
            if case['layout'] != LAYOUTS[shard[1]] or case['gz'] != shard[2]:
                continue
            viols, (nq, ncorr, ntie) = check_file(case)
            acc.case(case, transitions=nq, nontrivial=(ncorr > 0), outcome=f"file:{case['layout']}:{case['load']}:{case['pre']}")
            for sig, d in viols:
                acc.violation(sig, case, d)
    elif kind == 'fmt':
        for case in fmt_cases(tier):
            if case['layout'] != LAYOUTS[shard[1]] or case['gz'] != shard[2]:
                continue
            viols, (nq, ncorr, ntie) = check_file(case)
            acc.case(case, transitions=nq, nontrivial=(ncorr > 0), outcome=f"fmt:{case['layout']}:{case['fmt']}")
            for sig, d in viols:
                acc.violation(sig, case, d)
    elif kind == 'hist':
        _, L, size, first, full = shard
        _, strs = all_strings(L)
        if size == 1:
            wls = [(s,) for s in strs]
        else:
            wls = [(strs[first],) + c for c in itertools.combinations(strs[first + 1:], size - 1)]
        for wl in wls:
            for case in hist_cases(wl, full):
                viols, (nq, ncorr, ntie) = check_hist(case)
                plan = case['plan']
                acc.case(case, transitions=nq, nontrivial=(len(plan) > 1 and ncorr > 0 and ntie > 0),
                         outcome='hist:plan=' + '-'.join(map(str, plan)) + (':probed' if case['probe'] else '')
                                 + f":ctor={case['ctor_k']}:{case['idx']}:{case['args'].split(',')[0]}")
                for sig, d in viols:
                    acc.violation(sig, case, d)
    elif kind == 'shipped-eager':
        _, sub, k = shard
        # as demux.py: first a parser over the whole barcodes/ directory, then one over indices/, in ONE process; the two
        # directories ship a same-named list (illumina_RP_indices) with different content
        plan = [(s_, a, w, i) for s_, a, w, i in shipped_lists() if s_ == 'barcodes' and len(w[0]) <= 6]
        plan += [(s_, a, w, i) for s_, a, w, i in shipped_lists() if s_ == sub and len(w[0]) <= 8]
        for sub_, alias, wl, idx in plan:
            sub = sub_
            L = len(wl[0])
            case = {'kind': 'shipped', 'dir': sub, 'alias': alias, 'k': k, 'lo': 0, 'hi': 5 ** L, 'eager_dir': True}
            viols, (nq, ncorr, ntie) = check_shipped(case)
            acc.case(case, transitions=nq, nontrivial=(ncorr > 0), outcome=f'shipped-eager:{alias}:k={k}')
            acc.count('shipped_queries', nq)
            for sig, d in viols:
                acc.violation(sig, case, d)
    elif kind == 'shipped':
        _, sub, alias, k, lo, hi = shard
        case = {'kind': 'shipped', 'dir': sub, 'alias': alias, 'k': k, 'lo': lo, 'hi': hi}
        viols, (nq, ncorr, ntie) = check_shipped(case)
        acc.case(case, transitions=nq, nontrivial=(ncorr > 0), outcome=f'shipped:{alias}:k={k}')
        acc.count('shipped_queries', nq)
        for sig, d in viols:
            acc.violation(sig, case, d)


def replay(case):
    kind = case['kind']
    if kind == 'mem':
        return check_whitelist(tuple(case['wl']), case['k'])[0]
    if kind == 'file':
        return check_file(case)[0]
    if kind == 'hist':
        return check_hist(case)[0]
    if kind == 'shipped':
        return check_shipped(case)[0]
    raise ValueError(kind)
