"""C17 - blacklist-aware genome tiling is an exact partition with contained fetch windows.

Space: EVERY region [a,b) with 0<=a<b<=R, every bin size 1..R+2, fragment size in {None,0,1,2,3,R} (thorough: every
fragment size 0..R+1 at R=8), every blacklist of <= K half-open intervals with endpoints in -1..R+1 (two intervals in
both orders and the same interval twice) and the omitted blacklist (None), on the real blacklisted_binning; plus
fill_range / trim_rangelist / merge_overlapping_ranges / bp_chunked / blacklisted_binning_contigs on their own complete
small spaces:
 * bp_chunked: every composition of a run of <= R bases into pieces, every labelling of the pieces as bin / blacklisted
   gap, job tuples of arity 3 / 5 (with fetch window) / 6 (with a task payload), the run on one contig or split over two
   contigs at every position, every bp_per_job 1..R+1;
 * blacklisted_binning_contigs: two contigs, the blacklist as a BED FILE = every word over 8 records (on either contig,
   an unknown contig, touching the contig end; so duplicated, unsorted and interleaved files occur), written plain with
   3 columns / plain with 6 columns / space separated / gzip-compressed / not given at all, contig lengths from (name, length) pairs or
   from the header of a BAM file, five contig whitelists (list and set), and its tiling fed through bp_chunked.
Oracle: the property statement itself, evaluated with bitsets.
"""
import gzip
import itertools
import os
import shutil
import tempfile

from mc.bind import HarnessError

ID = 'C17'
DESIGN_REF = 'DESIGN.md section 3, C17'
RULE = ('exhaustive product region x bin size x fragment size x blacklist (None, all sets of <=K intervals over '
        '-1..R+1, pairs in both orders, doubled intervals) on the real blacklisted_binning; a case is non-trivial when '
        'the blacklist intersects the region and at least two bins are produced; bp_chunked: all labelled compositions x '
        'tuple arity x contig split x bp_per_job; blacklisted_binning_contigs: contig lengths x bin size x fragment '
        'size x BED words x file form x length resource x whitelist; states = distinct cases')
ASSUMPTIONS = [
    'blacklist intervals are half-open [start,end) with start<end; two-interval blacklists are passed in both orders, three-interval ones sorted',
    'bin size >= 1, fragment size >= 0',
    'a BED blacklist has one "contig start end [more columns]" record per line, whitespace separated, plain or gzip (.gz)',
    'bp_chunked: the size clauses are only demanded for bins of a single contig (its stated input); concatenation always',
]


def bounds(tier):
    aux = ('fill_range/trim exhaustive to R; merge: <=3 intervals (with repeats) over -1..R+1 and 4 over -1..4; '
           'bp_chunked: labelled compositions (bin/gap) x arity 3/5/6 x contig split x bp_per_job 1..Rc+1; '
           'contigs: l1 1..8 x l2 x bin size {1,2,3,9} x fragment {None,0,2} x BED words x file form x resource x whitelist, '
           'each tiling through bp_chunked with bp_per_job around multiples of the bin size')
    if tier == 'quick':
        return {'R': 8, 'max_blacklist_intervals': 2, 'bin_sizes': '1..R+2', 'fragment_sizes': [None, 0, 1, 2, 3, 8],
                'blacklist_none': True, 'doubled_intervals': True, 'Rc_chunk': 8,
                'contigs': {'l2': [1, 3], 'bed_words': 'all words <=2 over 8 records + all c1.c2.c1 words',
                            'slices': ['file forms {3col,6col,4col space separated,gz,no path} x all words (pairs, no whitelist)',
                                       'whitelist {None,[c2],[c1],{c1,c2},[zz]} x resource {pairs,bam} x words <=1']},
                'aux': aux}
    return {'R': 12, 'max_blacklist_intervals': 2, 'R3': 7, 'max_blacklist_intervals_R3': 3, 'bin_sizes': '1..R+2',
            'fragment_sizes': [None, 0, 1, 2, 3, 'R'], 'R_allfrag': 8, 'fragment_sizes_R_allfrag': '4..7,9 (with the rest: all of 0..R+1)',
            'blacklist_none': True, 'doubled_intervals': True, 'Rc_chunk': 9,
            'contigs': {'l2': [1, 3, 8], 'bed_words': 'all words <=3 over 8 records',
                        'product': 'file form x resource x whitelist x words (full product)'},
            'aux': aux}


def shards(tier):
    b = bounds(tier)
    out = []
    R = b['R']
    for a in range(0, R):
        for e in range(a + 1, R + 1):
            out.append(('bb', R, a, e, b['max_blacklist_intervals']))
    if tier == 'thorough':
        R3 = b['R3']
        for a in range(0, R3):
            for e in range(a + 1, R3 + 1):
                out.append(('bb', R3, a, e, 3))
        # the remaining fragment sizes, so that at R=8 EVERY fragment size 0..R+1 is explored
        Rf = b['R_allfrag']
        for a in range(0, Rf):
            for e in range(a + 1, Rf + 1):
                out.append(('bb', Rf, a, e, 2, [4, 5, 6, 7, 9]))
    out.append(('fill', R))
    out.append(('trim', R))
    out.append(('merge', min(R, 8)))
    for total in range(1, b['Rc_chunk'] + 1):
        out.append(('chunk', b['Rc_chunk'], total))
    for l1 in range(1, 9):
        for l2 in b['contigs']['l2']:
            out.append(('contigs', 8, l1, l2))
    return out


def _mask(s, e):
    """bitset of integer positions s..e-1 (clipped at 0)"""
    s = max(s, 0)
    e = max(e, 0)
    if e <= s:
        return 0
    return ((1 << e) - 1) ^ ((1 << s) - 1)


def _intervals(R):
    return [(s, e) for s in range(-1, R + 2) for e in range(s + 1, R + 2)]


def _frag_sizes(R):
    return [None, 0, 1, 2, 3, R]


def check_bb(a, e, bin_size, frag, blacklist, acc=None):
    """Run the real blacklisted_binning on one case and return list of (signature, detail)."""
    from singlecellmultiomics.bamProcessing import bamBinCounts as B
    out = []
    try:
        if blacklist is None:
            # the blacklist is optional: leaving it out means "nothing blacklisted"
            res = list(B.blacklisted_binning(a, e, bin_size, fragment_size=frag))
        else:
            res = list(B.blacklisted_binning(a, e, bin_size, blacklist=list(blacklist), fragment_size=frag))
    except Exception as ex:
        return [(f'blacklisted_binning:exception:{type(ex).__name__}', repr(ex))], None
    region = _mask(a, e)
    black = 0
    for s, t in (blacklist or ()):
        black |= _mask(s, t)
    black &= region
    covered = 0
    for tup in res:
        if frag is None:
            if len(tup) != 2:
                out.append(('blacklisted_binning:tuple-shape', tup)); break
            s, t = tup
        else:
            if len(tup) != 4:
                out.append(('blacklisted_binning:tuple-shape', tup)); break
            s, t, fs, fe = tup
        if not (s < t):
            out.append(('blacklisted_binning:empty-or-inverted-bin', tup)); continue
        if t - s > bin_size:
            out.append(('blacklisted_binning:bin-larger-than-bin-size', tup))
        if s < a or t > e:
            out.append(('blacklisted_binning:bin-outside-region', tup))
        m = _mask(s, t)
        if m & black:
            out.append(('blacklisted_binning:bin-touches-blacklist', tup))
        if m & covered:
            out.append(('blacklisted_binning:bins-overlap', tup))
        covered |= m
        if frag is not None:
            if fs > s or fe < t:
                out.append(('blacklisted_binning:fetch-window-does-not-contain-bin', tup))
            if s - fs > frag or fe - t > frag:
                out.append(('blacklisted_binning:fetch-window-extends-more-than-fragment-size', tup))
            if fs < a or fe > e:
                out.append(('blacklisted_binning:fetch-window-outside-region', tup))
            if _mask(fs, fe) & black:
                out.append(('blacklisted_binning:fetch-window-into-blacklist', tup))
    missing = (region & ~black) & ~covered
    if missing:
        out.append(('blacklisted_binning:gap-uncovered-bases', [i for i in range(a, e) if (missing >> i) & 1]))
    seen = set()
    dedup = []
    for sig, d in out:
        if sig not in seen:
            seen.add(sig)
            dedup.append((sig, {'result': res, 'first_offender': d}))
    return dedup, (len(res), bool(black))


def run_shard(shard, tier, acc):
    kind = shard[0]
    if kind == 'bb':
        _, R, a, e, K = shard[:5]
        frags = shard[5] if len(shard) > 5 else _frag_sizes(R)
        ivs = _intervals(R)
        bls = [None, ()]
        for k in range(1, K + 1):
            bls.extend(itertools.combinations(ivs, k))   # combinations of a sorted list are sorted
        # the function does not require a sorted blacklist (it merges and sorts itself): two intervals also in reverse order
        bls.extend((b, a) for a, b in itertools.combinations(ivs, 2))
        # ... nor a duplicate-free one (a BED file may list an interval twice)
        bls.extend((iv, iv) for iv in ivs)
        for bin_size in range(1, R + 3):
            for frag in frags:
                for bl in bls:
                    viols, info = check_bb(a, e, bin_size, frag, bl)
                    case = {'fn': 'blacklisted_binning', 'start': a, 'end': e, 'bin_size': bin_size,
                            'fragment_size': frag, 'blacklist': None if bl is None else [list(x) for x in bl]}
                    nbins, hasblack = info if info else (0, False)
                    acc.case(case, transitions=1 + nbins, nontrivial=(hasblack and nbins >= 2),
                             outcome=f'bins={nbins},black={hasblack}' if bl is not None else 'blacklist-omitted')
                    for sig, d in viols:
                        acc.violation(sig, case, d)
    elif kind == 'contigs':
        tmp = tempfile.mkdtemp(prefix='c17_', dir='/dev/shm' if os.path.isdir('/dev/shm') else None)
        try:
            for case in _contig_cases(tier, *shard[1:]):
                info = {}
                viols = _replay_in(case, tmp, info)
                acc.case(case, transitions=1 + info.get('bins', 0), nontrivial=info.get('black', False) and info.get('bins', 0) >= 2,
                         outcome=f"contigs:{case['bed_form']}:{case['resource']}:wl={_wl_label(case)}:black={info.get('black')}")
                for sig, d in viols:
                    acc.violation(sig, case, d)
        finally:
            shutil.rmtree(tmp, ignore_errors=True)
    else:
        for case in _aux_cases(kind, *shard[1:]):
            viols = replay(case)
            if kind == 'chunk':
                label = f"chunk:arity={case['arity']}:gaps={case['gaps']}:two-contigs={case['split'] is not None}"
                acc.case(case, transitions=1, nontrivial=len(case['bins']) >= 2, outcome=label)
            else:
                acc.case(case, transitions=1, nontrivial=True, outcome=kind)
            for sig, d in viols:
                acc.violation(sig, case, d)


def _wl_label(case):
    wl = case['whitelist']
    if wl is None:
        return 'None'
    return ('set' if case.get('whitelist_as_set') else 'list') + '(' + ','.join(wl) + ')'


def _aux_cases(kind, R, total=None):
    if kind == 'fill':
        for s in range(0, R + 1):
            for e in range(s, R + 1):
                for step in range(1, R + 3):
                    yield {'fn': 'fill_range', 'start': s, 'end': e, 'step': step}
    elif kind == 'trim':
        ivs = _intervals(R)
        for a in range(0, R):
            for e in range(a + 1, R + 1):
                for iv in ivs:
                    yield {'fn': 'trim_rangelist', 'start': a, 'end': e, 'ranges': [list(iv)]}
    elif kind == 'merge':
        ivs = _intervals(R)
        for k in (1, 2, 3):
            # with repeats: the same interval may be listed more than once
            for combo in itertools.combinations_with_replacement(ivs, k):
                yield {'fn': 'merge_overlapping_ranges', 'ranges': [list(x) for x in combo]}
        # four intervals (two merges in one pass, chains needing several passes) over a smaller coordinate range
        for combo in itertools.combinations(_intervals(3), 4):
            yield {'fn': 'merge_overlapping_ranges', 'ranges': [list(x) for x in combo]}
    elif kind == 'chunk':
        # every composition of a run of `total` bases into pieces, every labelling of the pieces as bin or blacklisted
        # gap (the bin lists tilings produce are runs of adjacent bins interrupted by blacklisted intervals), every tuple
        # arity the callers feed in ((contig,start,end) / +(fetch_start,fetch_end) / +(task payload)), the run on one
        # contig or continued on a second contig from every position on, every bp_per_job
        for cuts in range(0, 1 << (total - 1)):
            pieces, s = [], 0
            for i in range(1, total):
                if (cuts >> (i - 1)) & 1:
                    pieces.append((s, i)); s = i
            pieces.append((s, total))
            for labels in range(0, 1 << len(pieces)):       # bit set = blacklisted gap; 0 = all bins (simplest first)
                bins = [list(pc) for j, pc in enumerate(pieces) if not (labels >> j) & 1]
                for arity in (3, 5, 6):
                    for split in [None] + list(range(1, len(bins))):
                        for bp in range(1, R + 2):
                            yield {'fn': 'bp_chunked', 'bins': bins, 'bp_per_job': bp, 'arity': arity,
                                   'split': split, 'gaps': labels != 0}
    else:
        raise ValueError(kind)


# ---- blacklisted_binning_contigs: the alphabet of BED records, file forms, whitelists, length resources
def _bed_records(l1):
    R = 8
    return [('c1', 0, 1), ('c1', 1, 3), ('c1', 2, 3), ('c1', 0, 2), ('c1', l1 - 1, l1 + 1),
            ('c2', 0, 2), ('c2', 2, R + 1), ('zz', 0, 5)]


BED_FORMS = ['bed3', 'bed6', 'bed4sp', 'gz']
WHITELISTS = [(None, False), (['c2'], False), (['c1'], False), (['c1', 'c2'], True), (['zz'], False)]
BIN_SIZES_CONTIGS = (1, 2, 3, 9)
FRAGS_CONTIGS = (None, 0, 2)


def _contig_cases(tier, R, l1, l2):
    recs = _bed_records(l1)
    words = [()]
    words += [(r,) for r in recs]
    words += list(itertools.product(recs, repeat=2))
    c1 = [r for r in recs if r[0] == 'c1']
    c2 = [r for r in recs if r[0] == 'c2']
    if tier == 'quick':
        # a contig's records interrupted by those of another contig
        words += [(x, y, z) for x in c1 for y in c2 for z in c1]
    else:
        words += list(itertools.product(recs, repeat=3))

    def mk(bin_size, frag, word, form, resource, wl, as_set):
        return {'fn': 'blacklisted_binning_contigs', 'contigs': [['c1', l1], ['c2', l2]], 'bin_size': bin_size,
                'fragment_size': frag, 'blacklist_bed': [list(x) for x in word], 'bed_form': form,
                'resource': resource, 'whitelist': wl, 'whitelist_as_set': as_set}

    for bin_size in BIN_SIZES_CONTIGS:
        for frag in FRAGS_CONTIGS:
            if tier == 'quick':
                # slice 1: reading the blacklist file - every word in every file form
                for word in words:
                    for form in (['nopath'] if not word else []) + BED_FORMS:
                        yield mk(bin_size, frag, word, form, 'pairs', None, False)
                # slice 2: choosing the contigs - every whitelist x every length resource (pairs / no whitelist is in slice 1)
                for word in words[:1 + len(recs)]:
                    for resource in ('pairs', 'bam'):
                        for wl, as_set in WHITELISTS:
                            if resource == 'pairs' and wl is None:
                                continue
                            yield mk(bin_size, frag, word, 'bed3' if word else 'nopath', resource, wl, as_set)
            else:
                for word in words:
                    for form in (['nopath'] if not word else []) + BED_FORMS:
                        for resource in ('pairs', 'bam'):
                            for wl, as_set in WHITELISTS:
                                yield mk(bin_size, frag, word, form, resource, wl, as_set)


def replay(case):
    if case['fn'] == 'blacklisted_binning_contigs':
        tmp = tempfile.mkdtemp(prefix='c17_', dir='/dev/shm' if os.path.isdir('/dev/shm') else None)
        try:
            return _replay_in(case, tmp, {})
        finally:
            shutil.rmtree(tmp, ignore_errors=True)
    return _replay_in(case, None, {})


def _jobs(case):
    """the job tuples of a bp_chunked case: (contig, start, end[, fetch_start, fetch_end[, payload]])"""
    jobs = []
    for i, (s, e) in enumerate(case['bins']):
        split = case.get('split')
        contig = 'c1' if split is None or i < split else 'c2'
        arity = case.get('arity', 3)
        if arity == 3:
            jobs.append((contig, s, e))
        elif arity == 5:
            jobs.append((contig, s, e, s - 1, e + 2))      # a fetch window wider than the bin
        else:
            jobs.append((contig, s, e, s - 1, e + 2, {'task': i}))
    return jobs


def _check_chunks(site, jobs, bp, res, single_contig):
    out = []
    flat = [x for ch in res for x in ch]
    if flat != jobs:
        out.append((f'{site}:chunks-do-not-concatenate-to-input', res))
    if single_contig:
        for ch in res[:-1]:
            if sum(abs(j[2] - j[1]) for j in ch) < bp:
                out.append((f'{site}:inner-chunk-below-requested-size', res)); break
            if len(ch) > 1 and sum(abs(j[2] - j[1]) for j in ch[:-1]) >= bp:
                out.append((f'{site}:chunk-grown-past-requested-size', res)); break
    return out


def _replay_in(case, tmp, info):
    from singlecellmultiomics.bamProcessing import bamBinCounts as B
    from singlecellmultiomics.utils import binning
    fn = case['fn']
    if fn == 'blacklisted_binning':
        bl = case['blacklist']
        viols, _ = check_bb(case['start'], case['end'], case['bin_size'], case['fragment_size'],
                            None if bl is None else tuple(tuple(x) for x in bl))
        return viols
    out = []
    try:
        if fn == 'fill_range':
            s, e, step = case['start'], case['end'], case['step']
            res = list(B.fill_range(s, e, step))
            cur = s
            for (x, y) in res:
                if x != cur or not (x < y) or y - x > step or y > e:
                    out.append(('fill_range:not-a-partition-into-steps', res)); break
                cur = y
            else:
                if cur != e:
                    out.append(('fill_range:does-not-reach-end', res))
        elif fn == 'trim_rangelist':
            a, e = case['start'], case['end']
            rl = [tuple(x) for x in case['ranges']]
            res = list(B.trim_rangelist(rl, a, e))
            want = 0
            for s, t in rl:
                want |= _mask(s, t)
            want &= _mask(a, e)
            got = 0
            for s, t in res:
                if s < a or t > e:
                    out.append(('trim_rangelist:range-outside-region', res))
                got |= _mask(s, t)
            if got != want:
                out.append(('trim_rangelist:trimmed-union-differs-from-intersection', {'got': res}))
        elif fn == 'merge_overlapping_ranges':
            rl = [tuple(x) for x in case['ranges']]
            res = list(B.merge_overlapping_ranges(rl))
            want = 0
            for s, t in rl:
                want |= _mask(s + 2, t + 2)
            got = 0
            prev_end = None
            for s, t in res:
                m = _mask(s + 2, t + 2)
                if got & m or (prev_end is not None and s < prev_end):
                    out.append(('merge_overlapping_ranges:result-overlaps-or-unsorted', res)); break
                got |= m
                prev_end = t
            if got != want:
                out.append(('merge_overlapping_ranges:union-changed', res))
        elif fn == 'bp_chunked':
            jobs = _jobs(case)
            bp = case['bp_per_job']
            res = list(binning.bp_chunked(iter(jobs), bp))
            out.extend(_check_chunks('bp_chunked', jobs, bp, res, case.get('split') is None))
        elif fn == 'blacklisted_binning_contigs':
            out.extend(_check_contigs(case, B, binning, tmp, info))
        else:
            raise ValueError(fn)
    except HarnessError:
        raise
    except Exception as ex:
        out.append((f'{fn}:exception:{type(ex).__name__}', repr(ex)))
    return out


_BAMS = {}


def _bam_with_contigs(contigs, tmp):
    """path of an alignment file without reads whose header lists the contigs (the documented length resource)"""
    import pysam
    key = (tmp, tuple(contigs))
    if key not in _BAMS:
        path = os.path.join(tmp, 'h_' + '_'.join(f'{c}-{l}' for c, l in contigs) + '.bam')
        header = pysam.AlignmentHeader.from_dict({'HD': {'VN': '1.6', 'SO': 'coordinate'},
                                                  'SQ': [{'SN': c, 'LN': l} for c, l in contigs]})
        with pysam.AlignmentFile(path, 'wb', header=header):
            pass
        _BAMS[key] = path
    return _BAMS[key]


def _write_bed(bed, form, tmp):
    """the blacklist as the BED file a user would pass: plain 3 columns, plain 6 columns (name, score, strand), 4 columns
    separated by spaces, or gzip-compressed; 'nopath' = no blacklist file given"""
    if form == 'nopath':
        if bed:
            raise HarnessError('nopath with records')
        return None
    lines = []
    for i, (c, s, e) in enumerate(bed):
        line = f'{c}\t{max(s, 0)}\t{e}'
        if form == 'bed6':
            line += f'\tregion{i}\t{100 + i}\t+'
        elif form == 'bed4sp':                      # BED fields may be separated by spaces as well
            line = f'{c} {max(s, 0)}  {e} region{i}'
        lines.append(line + '\n')
    if form == 'gz':
        path = os.path.join(tmp, 'blacklist.bed.gz')
        with gzip.open(path, 'wt') as f:
            f.writelines(lines)
    else:
        path = os.path.join(tmp, 'blacklist.bed')
        with open(path, 'w') as f:
            f.writelines(lines)
    return path


def _check_contigs(case, B, binning, tmp, info):
    out = []
    contigs = [tuple(x) for x in case['contigs']]
    bed = case['blacklist_bed']
    frag = case['fragment_size']
    form = case.get('bed_form', 'bed3' if bed else 'nopath')
    path = _write_bed(bed, form, tmp)
    resource = contigs if case.get('resource', 'pairs') == 'pairs' else _bam_with_contigs(contigs, tmp)
    wl = case['whitelist']
    if wl is not None and case.get('whitelist_as_set'):
        wl = set(wl)
    res = list(B.blacklisted_binning_contigs(resource, case['bin_size'], frag, blacklist_path=path, contig_whitelist=wl))
    info['bins'] = len(res)
    info['black'] = False
    if any(len(r) != (3 if frag is None else 5) for r in res):
        return [('blacklisted_binning_contigs:tuple-shape', res)]
    # the tiling goes to the workers in jobs: grouped by the real bp_chunked it must still be the same tiling
    bs = case['bin_size']
    for bp in sorted({1, max(bs - 1, 1), bs, bs + 1, 2 * bs - 1, 2 * bs, 2 * bs + 1}):
        chunks = list(binning.bp_chunked(iter(res), bp))
        v = _check_chunks('contigs-then-bp_chunked', res, bp, chunks, False)
        if v:
            out.extend(v); break
    for c, length in contigs:
        mine = [r[1:] for r in res if r[0] == c]
        if case['whitelist'] is not None and c not in case['whitelist']:
            if mine:
                out.append(('blacklisted_binning_contigs:bins-on-non-whitelisted-contig', res))
            continue
        black = 0
        for bc, s, e in bed:
            if bc == c:
                black |= _mask(s, e)
        region = _mask(0, length)
        black &= region
        info['black'] = info['black'] or bool(black)
        cov = 0
        for r in mine:
            s, t = r[0], r[1]
            m = _mask(s, t)
            if not (s < t) or t - s > case['bin_size'] or s < 0 or t > length:
                out.append(('blacklisted_binning_contigs:bad-bin', res))
            if m & black:
                out.append(('blacklisted_binning_contigs:bin-touches-blacklist', res))
            if m & cov:
                out.append(('blacklisted_binning_contigs:bins-overlap', res))
            cov |= m
            if frag is not None:
                fs, fe = r[2], r[3]
                if fs > s or fe < t or s - fs > frag or fe - t > frag or fs < 0 or fe > length or (_mask(fs, fe) & black):
                    out.append(('blacklisted_binning_contigs:bad-fetch-window', res))
        if (region & ~black) & ~cov:
            out.append(('blacklisted_binning_contigs:gap-uncovered-bases', res))
    extra = [r for r in res if r[0] not in dict(contigs)]
    if extra:
        out.append(('blacklisted_binning_contigs:unknown-contig', res))
    seen = set()
    return [(s, d) for s, d in out if not (s in seen or seen.add(s))]
