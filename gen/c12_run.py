"""C12: drive the real counters for one case and bring the answer into canonical form.

call(case, path)  runs the code under test exactly as its callers do (bamCopyNumber / bamMutProfiler /
bamToBigWig): generate_commands -> obtain_counts(live_update=False), or get_binned_counts.  Whether the
module's Pool is the real one or a mc.sched.ScheduledPool is decided by the caller (patching), not here.

Run as a script (``python -m gen.c12_run`` from /verif, cases as a JSON list of [case, path] on stdin) it is
the FREE-RUNNING conformance run: a fresh interpreter, the real multiprocessing.Pool, nothing patched.
"""
import contextlib
import io
import json
import sys


def call(case, path):
    """-> canonical matrix: sorted list of [key (list), sorted [cell, n] pairs].  Exceptions propagate."""
    from singlecellmultiomics.bamProcessing import bamBinCounts as B
    from . import c12_bam as G
    fn = case['fn']
    sink = io.StringIO()
    with contextlib.redirect_stdout(sink):
        if fn == 'obtain_counts':
            if case.get('defaults'):
                commands = B.generate_commands(path, bin_size=case['bin_size'], bins_per_job=case['bins_per_job'])
                counts = B.obtain_counts(commands, reference=None, live_update=False)
            else:
                commands = B.generate_commands(path, bin_size=case['bin_size'], bins_per_job=case['bins_per_job'],
                                               min_mq=case['min_mq'], max_fragment_size=case['max_fragment_size'],
                                               key_tags=case['key_tags'], kwargs=case['kwargs'])
                counts = B.obtain_counts(commands, reference=None, live_update=False, threads=case['threads'],
                                         show_progress=bool(case.get('show_progress')))
            rows = [(list(k), dict(v)) for k, v in counts.items()]
        elif fn == 'get_binned_counts':
            df = B.get_binned_counts([path], case['bin_size'], regions=None,
                                     filter_function=G.PropertyFilter(case['min_mq']), n_threads=case['threads'])
            rows = []
            for key, ser in df.iterrows():
                row = {}
                for cell, v in ser.items():
                    if v == v and v != 0:                      # NaN = cell absent from this bin
                        row[cell] = int(v) if float(v).is_integer() else float(v)
                rows.append((list(key) if isinstance(key, tuple) else [key], row))
        else:
            raise ValueError(fn)
    out = []
    for k, row in rows:
        k = [int(x) if hasattr(x, '__index__') and not isinstance(x, bool) else x for x in k]
        out.append([k, sorted([c, int(n) if float(n).is_integer() else n] for c, n in row.items())])
    out.sort(key=lambda kr: json.dumps(kr[0]))
    return out


def main():
    sys.path.insert(0, '.')
    from mc import bind
    bind.bind()
    jobs = json.load(sys.stdin)
    res = []
    for case, path in jobs:
        try:
            res.append({'ok': call(case, path)})
        except Exception as e:
            res.append({'exception': type(e).__name__, 'repr': repr(e)})
    sys.stdout.write(json.dumps(res))


if __name__ == '__main__':
    main()
